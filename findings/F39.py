"""F39 (C19 / C12): CFG.get_words yields the very list it keeps in its table of known words (`yield new_word` after
`gen_d[head][-1].append(new_word)`; the one-symbol case yields a copy, `list(body)`).  A consumer that edits a received
word changes the words yielded afterwards.  Exit 0 = the defect is absent."""
import sys
from pyformlang.cfg import CFG, Terminal

text = "S -> A S | A\nA -> a | b"
plain = sorted(" ".join(x.value for x in w) for w in CFG.from_text(text).get_words(3))
edited = []
for w in CFG.from_text(text).get_words(3):
    edited.append(" ".join(x.value for x in w))
    w.append(Terminal("X"))          # the consumer owns what it received
edited.sort()
if plain != edited:
    print("DEFECT get_words(3) after the consumer edited received words:", edited)
    sys.exit(1)
sys.exit(0)
