# F07 (C05): the empty regex prints its internal tag
from pyformlang.regular_expression import Regex
r = Regex("")
text = str(r)
print("printed:", repr(text))
back = Regex(text)
bad = [w for w in ([], ["Empty"]) if back.accepts(w) != r.accepts(w)]
assert not bad, "DEFECT: str(Regex('')) == 'Empty' parses back as the symbol Empty"
