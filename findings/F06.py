# F06 (C05): str(regex) does not re-escape symbols that are operator characters
from pyformlang.regular_expression import Regex
r = Regex("a \\+ b")          # the three symbols a, +, b in sequence
assert r.accepts(["a", "+", "b"])
text = str(r)
print("printed:", text)
try:
    back = Regex(text)
    ok = back.accepts(["a", "+", "b"]) and not back.accepts(["a"])
except Exception as exc:
    print("re-parsing raised", type(exc).__name__)
    ok = False
assert ok, "DEFECT: str(regex) does not parse back to an equivalent regex"
