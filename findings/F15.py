# F15 (C16): FST.kleene_star adds a skip edge from the start state to the final state
from pyformlang.fst import FST
f = FST()
f.add_start_state(0)
f.add_transition(0, "a", 1, ["x"])
f.add_transition(1, "b", 1, ["y"])
f.add_final_state(1)
# relation of f: a b^n -> x y^n.  "b" alone is not in the domain of f, hence not in the domain of f*
star = f.kleene_star()
out = list(star.translate(["b"]))
print("f* translates b to:", out)
assert out == [], "DEFECT: the star translates a word that no sequence of iterations reads"
