# F03 (C03): the trash state of get_complement is not fresh against user state names
from pyformlang.finite_automaton import DeterministicFiniteAutomaton
d = DeterministicFiniteAutomaton()
d.add_start_state("s")
d.add_transition("s", "a", "TrashNode")
d.add_final_state("TrashNode")
c = d.get_complement()
bad = [w for w in ([], ["a"], ["a", "a"], ["c"]) if all(x in ("a",) for x in w) and c.accepts(w) == d.accepts(w)]
print("words (over the alphabet) on which complement and automaton agree:", bad)
assert not bad, "DEFECT: complement of an automaton with a state named TrashNode is wrong"
