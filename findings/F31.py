# F31 (C05): to_cfg invents variable names A0, A1, ... without checking the caller's start symbol
from pyformlang.regular_expression import Regex
r = Regex("a b")
good = r.to_cfg("S")
bad = r.to_cfg("A0")
print("start S : contains a ->", good.contains(["a"]), "| start A0: contains a ->", bad.contains(["a"]))
assert bad.contains(["a"]) == good.contains(["a"]), "DEFECT: Regex('a b').to_cfg('A0') generates 'a'"
