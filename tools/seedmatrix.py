#!/usr/bin/env python3
"""Print the markdown table of DESIGN.md section 8.5 from seeded/*/meta.json."""
import glob
import json
import os
import re

VERIF = os.path.dirname(os.path.dirname(os.path.abspath(__file__)))


def first_sentence(notes):
    txt = re.sub(r"^#.*$", "", notes, flags=re.M).strip()
    txt = re.sub(r"\*\*|`", "", txt)
    txt = re.sub(r"^(Change|change)\s*(\([^)]*\))?\s*:?\s*", "", txt)
    txt = " ".join(txt.split())
    m = re.search(r"(.{40,230}?[.;])(\s|$)", txt)
    return (m.group(1) if m else txt[:200]).replace("|", "/")


def main():
    rows = []
    for mf in sorted(glob.glob(os.path.join(VERIF, "seeded", "*", "meta.json"))):
        m = json.load(open(mf))
        roles = []
        for p in m.get("detected_by", []):
            for v in m.get("reports", {}).get(p, [])[:2]:
                r = re.search(r"function=(\S+) role=(\S+)", v)
                if r:
                    roles.append("%s `%s` in `%s`" % (p, r.group(2)[:48], r.group(1).rsplit(".", 2)[-1] if False else r.group(1)))
        rows.append((m["id"], m.get("round", 1), first_sentence(m.get("needs_to_manifest", "")),
                     ", ".join(m.get("detected_by", [])) or "-", "; ".join(roles[:3]) or
                     ("cannot follow: " + ", ".join(m.get("analysis_error_in", [])) if m.get("analysis_error_in") else "none")))
    n = len(rows)
    det = sum(1 for r in rows if r[3] != "-")
    print("%d confirmed seeded changes, %d detected by at least one check, %d not detected.\n" % (n, det, n - det))
    print("| seed | round | change (first sentence of the author's note) | detected by | obligation(s) that report it |")
    print("|---|---|---|---|---|")
    for r in rows:
        print("| %s | %s | %s | %s | %s |" % r)
    by_prop = {}
    for r in rows:
        p = r[0].split("-")[0]
        a, b = by_prop.get(p, (0, 0))
        by_prop[p] = (a + 1, b + (1 if r[3] != "-" else 0))
    print("\nPer property (seeds written against it / detected): " +
          ", ".join("%s %d/%d" % (p, b, a) for p, (a, b) in sorted(by_prop.items())))


if __name__ == "__main__":
    main()
