#!/bin/bash
# tools/tryp.sh <dir with patch.diff> <prop> : apply the patch to a scratch copy of /repo/pyformlang, run one check on it
d=$(mktemp -d /tmp/tryp-XXXX); cp -r /repo/pyformlang $d/; (cd $d && git apply --whitespace=nowarn "$1/patch.diff") || { echo "patch does not apply"; rm -rf $d; exit 3; }
cd "$(dirname "$0")/.."; VERIF_REPO=$d VERIF_EVIDENCE_DIR=$d/ev ./check $2 2>&1 | grep -v "^WARNING\|^KNOWN-FINDING"; rm -rf $d
