#!/bin/bash
# Run every claimed check (quick tier) on /repo's working tree, 6 at a time; print one line per property.
cd "$(dirname "$0")/.."
props=$(python3 -c "import json; print(' '.join(c['property_id'] for c in json.load(open('MANIFEST.json'))['checks']))")
echo $props | tr ' ' '\n' | xargs -P 6 -I{} sh -c './check {} 2>&1 | grep -E "^C[0-9]+ tier|^VIOLATION|^ANALYSIS-ERROR" | tr "\n" " "; echo' | sort
