#!/bin/bash
# tools/repaircheck.sh Fxx : apply the candidate repair repairs/Fxx/patch.diff (written by an independent sub-agent, never
# committed to /repo) to a scratch copy of /repo/pyformlang, run the finding's reproducer and the repair's own checks, then
# all 19 checks on the repaired copy.  A correct repair must raise no VIOLATION / ANALYSIS-ERROR; a KNOWN-FINDING line for
# Fxx that is still printed is reported (exit code of the check is 0 in that case).
f=$1; here="$(cd "$(dirname "$0")/.." && pwd)"
d=$(mktemp -d /tmp/repaircheck-XXXX); cp -r /repo/pyformlang $d/
(cd $d && git apply --whitespace=nowarn "$here/repairs/$f/patch.diff") || { echo "$f: patch does not apply"; rm -rf $d; exit 3; }
r=$(cd $d && PYTHONPATH=$d /venv/bin/python "$here/findings/$f.py" >/dev/null 2>&1; echo $?)
m=$(cd $d && PYTHONPATH=$d timeout 900 /venv/bin/python "$here/repairs/$f/more_checks.py" >/dev/null 2>&1; echo $?)
out=""; rc=0
for p in $(python3 -c "import json; print(' '.join(c['property_id'] for c in json.load(open('$here/MANIFEST.json'))['checks']))"); do
  o=$(cd "$here" && VERIF_REPO=$d VERIF_EVIDENCE_DIR=$d/ev ./check $p 2>&1 | grep -E "^  rule=|^ANALYSIS-ERROR|^KNOWN-FINDING" | cut -c1-200)
  echo "$o" | grep -q "KNOWN-FINDING.* $f[ab]* " && out="$out\n   $p still prints KNOWN-FINDING $f"
  bad=$(echo "$o" | grep -E "^  rule=|^ANALYSIS-ERROR"); [ -n "$bad" ] && { out="$out\n   $p: $bad"; rc=1; }
done
echo -e "== $f reproducer_exit=$r more_checks_exit=$m$out"; rm -rf $d; exit $rc
