#!/usr/bin/env python3
"""Regenerate /verif/MANIFEST.json from the per-property table below (claimed = a rule module sa/rules/cXX.py exists
and is listed in CLAIMED)."""
import json
import os

VERIF = os.path.dirname(os.path.dirname(os.path.abspath(__file__)))

TB = ("Trusted base: Python's ast module; the abstract interpreter of /verif/sa (receiver-typed call resolution, "
      "locations rooted at the entry point, may-dependences, must-qualifiers); the tables of sa/model.py and "
      "sa/rules/*.py, validated against the program index on every run (a vanished anchor is ANALYSIS-ERROR, exit 2).")

CLAIMED = {
    "C01": ("typestate (epsilon-closure qualifier) dataflow + component/role-flow dependence analysis + class-invariant "
            "and fresh-name rules",
            "Static necessary conditions on all paths and call chains: finality decided over epsilon-closed sets in "
            "accepts / subset construction / epsilon-removal; copy, to_deterministic, remove_epsilon_transitions, "
            "minimize read every component of their operand with the right roles; advertised result classes; eclose "
            "is a closure over epsilon edges; merged names injective; Epsilon never enters the alphabet / a deterministic "
            "table; the optional start state is compared with None, not tested for truthiness. Decides these clauses for "
            "every automaton; does not decide that the constructions compute the right values."),
    "C02": ("typestate (minimised-DFA) check on every path into the isomorphism walk + dependence analysis of the walk "
            "and of the partition refinement",
            "Static necessary conditions: both arguments of the isomorphism walk are results of minimize() on DFAs on "
            "every call path, non-DFA operands are determinised, == delegates, the walk's verdict depends on finality, "
            "edge sets, edge symbols and successors of both sides, the initial partition splits on FINAL. Exactness of "
            "the verdict (e.g. the explicit-sink-state defect) is not decided."),
    "C03": ("typestate (determinism / epsilon-closure qualifiers) + role-flow dependence analysis + delegation and "
            "fresh-name rules",
            "Static necessary conditions on all paths: final-state flip only on a DFA; product coordinates from "
            "epsilon-closed sets of the right operand; final pairs / alphabet / edges depend on both operands; "
            "difference completes a fresh copy over self's alphabet; reverse swaps extremities and edge direction for "
            "symbol and epsilon edges; rational operations go through Regex combinators; names fresh/injective."),
    "C04": ("component-coverage dependence analysis + worklist pattern recogniser",
            "Static necessary conditions: is_empty / is_acyclic / is_deterministic / get_accepted_words depend on every "
            "component their definition needs (start, final, symbol and epsilon edges, all determinism conjuncts, "
            "length bound), epsilon edges do not extend words, yields are duplicate-guarded. Exactness of the "
            "enumeration is not decided."),
    "C06": ("typestate simulation (merged-parallel-edges) over the inlined event order + component coverage + "
            "exception-escape analysis",
            "Static necessary conditions: state elimination and the closed form only start from merged parallel "
            "edges (established before the loop and re-established by every step), outgoing and incoming edges of an "
            "eliminated state cover symbol and epsilon edges, one private copy per final state, no undocumented "
            "exception escapes to_regex. The denotation of the produced text is not decided."),
    "C08": ("interprocedural guard-dominance (exception discipline) + dependence analysis",
            "Static necessary conditions: the word-keyed dictionary subscript is dominated by the all-terminals guard "
            "on every call path and the full-span cell is defined on the other branch (unknown symbols give False, "
            "not KeyError); CYK only for non-empty words; normalisation of the word; verdict = start symbol in the "
            "full-span cell; the nullable fixpoint keeps one counter per production, started at the number of registered "
            "occurrences; Variable / Terminal equality is symmetric (sibling __eq__ agreement). Exactness of CYK is "
            "not decided."),
    "C09": ("phase-order and dependence analysis over tagged fixpoint results + cache-coherence pairing + fresh-name "
            "rules",
            "Static necessary conditions: generating-before-reachable ordering with reachability computed on the "
            "filtered grammar, nullable expansion dropping empty bodies, unit-pair closure, pipeline order of "
            "to_normal_form, cache stores what is returned, fresh CNF names. Language preservation is not decided."),
    "C10": ("fresh-name / capture-avoidance analysis of substitute + operand-flow and delegation rules",
            "Static necessary conditions: every head renamed, un-renamed body symbols only when not a variable of the "
            "operand, shared counter, total name building, templates eliminated through substitute with both operands "
            "in body order, reverse reverses bodies, operators delegate; the optional start symbol is compared with None. "
            "The denotation of the templates is not decided."),
    "C11": ("typestate (DFA) on indexed successor collections + sibling-dispatch agreement + dependence analysis",
            "Static necessary conditions: successors that are indexed always come from a DeterministicFiniteAutomaton, "
            "dispatch agreement of the three intersection methods, Start -> epsilon depends on both operands, start "
            "rules, both normal-form shapes, PDA product finality / epsilon moves / worklist, fresh converter, names. "
            "Exactness of the constructions is not decided."),
    "C13": ("fresh-name rules + ownership of wrapper edges + role-flow analysis of wrapper edges + phase-order rule",
            "Static necessary conditions: six reserved names from the freshness loop against the right collection, "
            "wrapper edges on copies, pop edges for every (final) state over the alphabet including the new bottom "
            "marker, start edge pushes [start symbol, marker], set_valid strictly before is_valid_and_get (not in a "
            "common loop), to_pda's two move kinds, optional start state / start stack symbol compared with None (0 and '' "
            "are names). Language equality is not decided."),
    "C05": ("exception-escape + interprocedural guard-dominance on token-list subscripts + exhaustiveness / writer-reader "
            "agreement of node classes and symbol tables + abstract path enumeration of the Thompson cases + fresh names",
            "Static necessary conditions: only MisformedRegexError is raised, token-list subscripts are length-guarded, "
            "reader / dispatcher / printer are exhaustive and agree, combinators build the right head over [self, "
            "other], every Thompson case realises exactly its son sequences between s_from and s_to. The precedence "
            "rewriter and the language of to_cfg are not decided."),
    "C07": ("must-pass-through (re.compile gate) + constant-folded table agreement",
            "Narrow claim: rejected patterns are rejected (re.compile gate before any rewriting, uncaught) and the "
            "escape tables cover the Regex operator characters. The matching equivalence itself is explicitly not "
            "decided."),
    "C14": ("exception discipline with may-type attribute checks + dependence analysis of the table fill + re-queue "
            "pattern of the fixpoints",
            "Static necessary conditions: only NotParsableException, no attribute read on the string sentinel, guarded "
            "look-ahead, .get lookups, FIRST fill over all productions, accumulating cells, verdict reads every cell, "
            "re-queue on growth. Equality with the textbook FIRST/FOLLOW sets is not decided."),
    "C15": ("ownership analysis of parse trees in the Earley steps + commit-on-success dominance + dependence analysis of "
            "CYK nodes + documented exception classes + sibling agreement of the derivation listings",
            "Static necessary conditions: chart states never share a mutable tree, children assigned only after a "
            "successful expansion, CYK nodes carry both back-pointers, the accepted Earley state starts at position 0, "
            "documented refusal exceptions, the leftmost and "
            "rightmost derivation listings extend the rewritten part by the same case analysis (mirror-sibling "
            "agreement). That the listed forms are the derivation is not decided beyond that agreement."),
    "C16": ("role-flow dependence analysis of the transducer constructions + forbidden-flow rule + pop-time marking "
            "pattern + fresh-name totality",
            "Static necessary conditions: star has the loop-back edge and no skip edge, union / concatenate take the "
            "right extremities and edges of both operands with a silent bridge, translate has both move kinds, yields "
            "only consumed+final, marks at pop; to_fst distinguishes epsilon edges; renaming total. Relation equality "
            "is not decided."),
    "C17": ("configuration-forwarding analysis + literal-start-symbol rule + option exhaustiveness + permutation "
            "qualifier + sibling agreement of __eq__",
            "Static necessary conditions: start variable and ordering option forwarded to derived grammars, no "
            "hard-coded `S`, options 1..8 handled, orderings return permutations, __eq__ siblings read accessors "
            "consistently, the marking loop dispatches on both rule kinds and answers `empty` after convergence, every "
            "insertion into a marked set raises the routine's change flag. The "
            "value of the fixpoint is not decided."),
    "C18": ("ownership (unify on copies) + iterator-invalidation rule + DEREF typestate + structural coverage of copy / "
            "subsumes / unify + fresh dummy head",
            "Static necessary conditions: destructive unification only on fresh copies, no insertion into the chart "
            "index being iterated, reads through dereferenced nodes, memoised copy, recursion over all features, a new chart "
            "state is refused when a stored state subsumes it (not the converse). "
            "glb-ness and Earley completeness are not decided."),
    "C20": ("writer/reader agreement of constants + predicate-table evaluation of the text classifier + dependence "
            "analysis of from_ebnf + fresh reserved node names",
            "Static necessary conditions: graph attributes / separators / json fields / epsilon spelling / reserved "
            "names agree between to_networkx and from_networkx, text markers and slices agree and the reader's "
            "classifier maps every written case back to its class, start and final marks read independently, one minimised "
            "box per head. Value-level round-trip "
            "equality is not decided."),
    "C12": ("component-coverage dependence analysis with constant-mode specialisation of the shared fixpoint + worklist "
            "pattern recogniser + branch-fact (guard) analysis of every yield + cache-field pairing",
            "Static necessary conditions only (narrow claim): is_empty answers from the start symbol and the generating "
            "set; the generating / nullable accessors run the shared counting fixpoint in the right constant mode, "
            "terminals seed it in generating mode only, empty-body heads and an Epsilon instance in both, every push on its "
            "worklist is guarded by a not-yet-known test (each symbol popped once), each accessor returns what it stores "
            "in its own cache field; get_reachable_symbols is a closure worklist from the start symbol over whole bodies "
            "keyed by heads; is_finite builds its graph from the normal form with edges to both symbols of a binary body "
            "and hands it to the cycle test; get_words yields the empty word under start-in-nullable for every bound, "
            "other words only under an equality test with the start symbol, from loops over the normal form's "
            "productions, never for bound 0, concatenated words under a membership test and a comparison with the bound. "
            "NOT decided: the values of the fixpoints, the cycle test, the stopping rule, completeness and exactness of "
            "the enumeration (DESIGN.md section 4, C12)."),
    "C19": ("effects-and-ownership analysis (mod/alias dataflow over a type-resolved call graph) with cache-discipline "
            "rules",
            "Static analysis over all paths of every public non-mutator method (per concrete receiver class, callees "
            "inlined): no operand write (undeclared private fields are judged as caches by their discipline: filled under "
            "their own test, reset by every mutator that matters or per call, keyed by every argument the value depends "
            "on, never updated outside the fill, never consumed), cache disciplines D1-D5 (scratch counters restored with "
            "multiplicity), fresh results of conversions, no operand-owned container handed out as an element, no mutable "
            "element yielded that the generator also keeps in its working storage. Decides those clauses "
            "for every call history, which no finite test history does; value-level dependence on history is not "
            "decided."),
}

NOT_APPLICABLE = {}


def main():
    props = [json.loads(l) for l in open(os.path.join(VERIF, "properties.jsonl"))]
    checks = []
    na = []
    for p in props:
        pid = p["id"]
        if pid in CLAIMED and os.path.exists(os.path.join(VERIF, "sa", "rules", pid.lower() + ".py")):
            tech, text = CLAIMED[pid]
            checks.append({
                "property_id": pid,
                "quick_cmd": "./check %s --tier quick" % pid,
                "thorough_cmd": "./check %s --tier thorough" % pid,
                "evidence_file": "/verif/evidence/%s.json" % pid,
                "replay_cmd_template": "./check %s --replay {path}" % pid,
                "engine": "sa",
                "level_claimed": {"category": "other", "text": text, "design_ref": "DESIGN.md section 4, " + pid},
                "level_note": TB,
                "technique": "static analysis: " + tech,
            })
        elif pid in NOT_APPLICABLE:
            na.append({"property_id": pid, "reason": NOT_APPLICABLE[pid]})
        else:
            na.append({"property_id": pid, "reason": "rule not built and validated yet (designed in DESIGN.md section 4); "
                                                     "not claimed until its check exists and passes both ways"})
    m = {
        "version": 1,
        "setup_cmd": "true",
        "hooks": {"guard": "PYFORMLANG_VERIF",
                  "enable": "none needed: the checks read /repo's source and never import or run it; no hook commit exists",
                  "baseline_off_cmd": "cd /repo && /venv/bin/python -m pytest -ra -q -p no:cacheprovider --timeout=900 "
                                      "--continue-on-collection-errors",
                  "source_commits": [], "add_only": True},
        "engines": [{"name": "sa", "path": "/verif/sa", "serves_properties": sorted(c["property_id"] for c in checks),
                     "kind_free_text": "repository-specific static analyser: ast index, abstract interpreter (types, alias "
                                       "locations, dependencies, must-qualifiers), type-resolved inlining call graph, "
                                       "per-property rule modules"}],
        "checks": checks,
        "not_applicable": na,
        "notes": "Technique family: static analysis only. Exit 0 = all obligations hold or match an open known finding "
                 "(KNOWN-FINDING lines); exit 1 = VIOLATION; exit 2 = ANALYSIS-ERROR (cannot decide; never a silent "
                 "pass). thorough tier = quick obligations + checker self-test both ways on scratch copies.",
    }
    with open(os.path.join(VERIF, "MANIFEST.json"), "w") as fh:
        json.dump(m, fh, indent=1)
    print("claimed:", [c["property_id"] for c in checks])


if __name__ == "__main__":
    main()
