#!/venv/bin/python
"""Confirm seeded changes and run the checks against them.

For every directory D given (containing patch.diff, demo.py): in a scratch copy of /repo
  1. demo passes on the pristine copy,
  2. the patch applies; the existing test suite passes with it; the demo fails with it,
  3. every claimed check (or --props) is run on the patched copy (VERIF_REPO): which ones report a VIOLATION.
Nothing is written to /repo.  Usage: tools/seedcheck.py [--props C01,C19] [--skip-tests] D..."""
import argparse
import concurrent.futures as cf
import json
import os
import shutil
import subprocess
import sys
import tempfile

VERIF = os.path.dirname(os.path.dirname(os.path.abspath(__file__)))
REPO = "/repo"
PY = "/venv/bin/python"


def run(cmd, cwd=None, env=None, timeout=1200):
    p = subprocess.run(cmd, cwd=cwd, env=env, capture_output=True, text=True, timeout=timeout)
    return p.returncode, p.stdout + p.stderr


def claimed():
    with open(os.path.join(VERIF, "MANIFEST.json")) as fh:
        return [c["property_id"] for c in json.load(fh)["checks"]]


def one(d, props, skip_tests):
    d = os.path.abspath(d)
    res = {"dir": d}
    tmp = tempfile.mkdtemp(prefix="pfl-seed-")
    try:
        wt = os.path.join(tmp, "repo")
        run(["git", "-C", REPO, "worktree", "add", "--detach", "-f", wt, os.environ.get("VERIF_BASE", "HEAD")])
        env = dict(os.environ, PYTHONPATH=wt)
        rc0, out0 = run([PY, os.path.join(d, "demo.py")], cwd=wt, env=env, timeout=600)
        res["demo_pristine_ok"] = rc0 == 0
        rc, out = run(["git", "-C", wt, "apply", "--whitespace=nowarn", os.path.join(d, "patch.diff")])
        if rc != 0:
            rc, out = run(["git", "-C", wt, "apply", "--3way", "--whitespace=nowarn", os.path.join(d, "patch.diff")])
        res["patch_applies"] = rc == 0
        if rc != 0:
            res["error"] = out[-400:]
            return res
        rc1, out1 = run([PY, os.path.join(d, "demo.py")], cwd=wt, env=env, timeout=600)
        res["demo_fails_with_patch"] = rc1 != 0
        res["demo_tail"] = out1.strip().splitlines()[-1][:200] if out1.strip() else ""
        if not skip_tests:
            rct, outt = run([PY, "-m", "pytest", "-q", "-p", "no:cacheprovider", "--timeout=900", "-x", "pyformlang"],
                            cwd=wt, env=env, timeout=1500)
            res["tests_pass"] = rct == 0
            res["tests_tail"] = outt.strip().splitlines()[-1][:120] if outt.strip() else ""
        det = {}
        for p in props:
            cenv = dict(os.environ, VERIF_REPO=wt, VERIF_EVIDENCE_DIR=os.path.join(tmp, "ev"))
            rcc, outc = run([os.path.join(VERIF, "check"), p], cwd=VERIF, env=cenv, timeout=1500)
            roles = [l.strip() for l in outc.splitlines() if l.startswith("  rule=")]
            errs = [l.strip()[:200] for l in outc.splitlines() if l.startswith("ANALYSIS-ERROR")]
            det[p] = {"exit": rcc, "violations": roles[:6], "errors": errs[:3]}
        res["checks"] = det
        res["detected_by"] = [p for p, v in det.items() if v["exit"] == 1]
        res["analysis_error_in"] = [p for p, v in det.items() if v["exit"] == 2]
        return res
    finally:
        run(["git", "-C", REPO, "worktree", "remove", "--force", os.path.join(tmp, "repo")])
        shutil.rmtree(tmp, ignore_errors=True)


def main():
    ap = argparse.ArgumentParser()
    ap.add_argument("dirs", nargs="+")
    ap.add_argument("--props")
    ap.add_argument("--skip-tests", action="store_true")
    ap.add_argument("--jobs", type=int, default=6)
    ap.add_argument("--json")
    a = ap.parse_args()
    props = a.props.split(",") if a.props else claimed()
    out = []
    with cf.ThreadPoolExecutor(max_workers=a.jobs) as ex:
        for r in ex.map(lambda d: one(d, props, a.skip_tests), a.dirs):
            out.append(r)
            print("%-22s pristine_ok=%s applies=%s tests=%s demo_fails=%s detected_by=%s errors_in=%s" % (
                "/".join(r["dir"].split("/")[-2:]), r.get("demo_pristine_ok"), r.get("patch_applies"), r.get("tests_pass"),
                r.get("demo_fails_with_patch"), r.get("detected_by"), r.get("analysis_error_in")))
            for p in r.get("detected_by", []):
                for v in r["checks"][p]["violations"][:3]:
                    print("      %s %s" % (p, v))
            for p in r.get("analysis_error_in", []):
                for v in r["checks"][p]["errors"][:2]:
                    print("      %s %s" % (p, v))
    if a.json:
        with open(a.json, "w") as fh:
            json.dump(out, fh, indent=1)


if __name__ == "__main__":
    main()
