#!/venv/bin/python
"""Checker self-test, both ways (DESIGN.md section 5, Appendix B).

For every variant: copy /repo/pyformlang (non-test modules) to a scratch
directory outside /repo and /verif, apply one edit, run the property's check on
the copy (VERIF_REPO), delete the copy.

  breaking variants    must be reported (exit 1) and the report must name the
                       expected obligation role
  preserving variants  must leave the verdict of the unchanged tree (exit 0)

Usage: tools/selftest.py [--prop Cxx] [--jobs N] [--only ID]
Exit 0 when every variant behaves as expected, 2 otherwise (the *checker* is
broken, not the repository)."""
import argparse
import concurrent.futures as cf
import json
import os
import shutil
import subprocess
import sys
import tempfile

HERE = os.path.dirname(os.path.abspath(__file__))
VERIF = os.path.dirname(HERE)
REPO = os.environ.get("VERIF_REPO", "/repo")
sys.path.insert(0, VERIF)


def load_variants():
    from tools import variants
    return variants.VARIANTS + load_seeded()


def load_seeded():
    """The seeded changes kept under /verif/seeded (written by independent sub-agents, see DESIGN 8.5) that a check
    detects are regression variants too: the patch is applied to the scratch copy and the recorded check must report
    the recorded obligation role.  Seeds no check detects (value-level changes, DESIGN 8.5) are not variants."""
    import glob
    out = []
    for mf in sorted(glob.glob(os.path.join(VERIF, "seeded", "*", "meta.json"))):
        with open(mf) as fh:
            meta = json.load(fh)
        for prop, role in sorted(meta.get("expect_roles", {}).items()):
            out.append(dict(id="seed-%s-%s" % (meta["id"], prop), prop=prop, kind="seed", expect=role,
                            patch=os.path.join(os.path.dirname(mf), "patch.diff")))
    return out


def run_variant(v):
    tmp = tempfile.mkdtemp(prefix="pfl-selftest-")
    try:
        dst = os.path.join(tmp, "pyformlang")
        shutil.copytree(os.path.join(REPO, "pyformlang"), dst,
                        ignore=shutil.ignore_patterns("tests", "__pycache__", "*.pyc"))
        if v["kind"] == "seed":
            pa = subprocess.run(["git", "apply", "--whitespace=nowarn", "--exclude=*/tests/*", v["patch"]], cwd=tmp,
                                capture_output=True, text=True)
            if pa.returncode != 0:
                return dict(v, status="skipped", why="patch does not apply to the current tree")
        else:
            path = os.path.join(tmp, v["file"])
            with open(path, encoding="utf-8") as fh:
                src = fh.read()
            if src.count(v["old"]) != 1:
                return dict(v, status="skipped", why="anchor text occurs %d times" % src.count(v["old"]))
            src = src.replace(v["old"], v["new"])
            try:
                compile(src, path, "exec")
            except SyntaxError as exc:
                return dict(v, status="bad-variant", why="does not compile: %s" % exc)
            with open(path, "w", encoding="utf-8") as fh:
                fh.write(src)
        env = dict(os.environ, VERIF_REPO=tmp, VERIF_EVIDENCE_DIR=os.path.join(tmp, "evidence"))
        p = subprocess.run([os.path.join(VERIF, "check"), v["prop"], "--tier", "quick", "--no-cache"], cwd=VERIF, env=env,
                           capture_output=True, text=True, timeout=900)
        out = p.stdout + p.stderr
        if v["kind"] in ("break", "seed"):
            named = v.get("expect", "") in out
            ok = p.returncode == 1 and named
            why = "" if ok else "exit=%d, expected role %r %s" % (p.returncode, v.get("expect"), "named" if named else "not named")
        elif v["kind"] == "unfollowable":
            # a behaviour-preserving refactoring the engine cannot follow: must be reported as ANALYSIS-ERROR (exit 2),
            # never as a violation
            ok = p.returncode in (0, 2) and "VIOLATION" not in out
            why = "" if ok else "exit=%d: a refactoring the engine cannot follow was reported as a violation" % p.returncode
        else:
            ok = p.returncode == 0
            why = "" if ok else "exit=%d on a behaviour-preserving edit" % p.returncode
        tail = "\n".join(l for l in out.splitlines() if l.startswith(("VIOLATION", "ANALYSIS-ERROR", "  rule=")))[:1500]
        return dict(v, status="ok" if ok else "FAIL", why=why, output=tail)
    finally:
        shutil.rmtree(tmp, ignore_errors=True)


def main():
    ap = argparse.ArgumentParser()
    ap.add_argument("--prop")
    ap.add_argument("--jobs", type=int, default=min(16, os.cpu_count() or 4))
    ap.add_argument("--only")
    ap.add_argument("--json")
    args = ap.parse_args()
    vs = load_variants()
    if args.prop:
        vs = [v for v in vs if v["prop"] == args.prop.upper()]
    if args.only:
        vs = [v for v in vs if v["id"] == args.only]
    results = []
    with cf.ThreadPoolExecutor(max_workers=args.jobs) as ex:
        for r in ex.map(run_variant, vs):
            results.append(r)
            print("%-8s %-5s %-40s %s %s" % (r["status"], r["prop"], r["id"], r["kind"], r.get("why", "")))
            if r["status"] == "FAIL":
                print(r.get("output", ""))
    n_fail = sum(1 for r in results if r["status"] in ("FAIL", "bad-variant"))
    n_ok = sum(1 for r in results if r["status"] == "ok")
    n_skip = sum(1 for r in results if r["status"] == "skipped")
    print("selftest: %d variants, %d ok, %d failed, %d skipped" % (len(results), n_ok, n_fail, n_skip))
    if args.json:
        with open(args.json, "w") as fh:
            json.dump([{k: v for k, v in r.items() if k != "output"} for r in results], fh, indent=1)
    sys.exit(2 if n_fail else 0)


if __name__ == "__main__":
    main()
