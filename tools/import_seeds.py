#!/usr/bin/env python3
"""Copy confirmed seeded changes (patch.diff, demo.py, notes.md + the result of tools/seedcheck.py) into /verif/seeded/.

Usage: tools/import_seeds.py [--round N] RESULT.json...

Each RESULT.json is what `tools/seedcheck.py --json` wrote.  A seed directory is either /verif/seeded/<prop>-m<k>
(re-evaluation of a kept seed: meta.json is refreshed, patch regenerated only if given) or <anywhere>/<prop>/m<k>
(a new seed).  A seed is kept only when all four confirmations hold: the demonstration passes on the pristine tree,
the patch applies, the test suite passes with it, the demonstration fails with it."""
import json
import os
import re
import shutil
import subprocess
import sys

VERIF = os.path.dirname(os.path.dirname(os.path.abspath(__file__)))


def sid_of(d):
    d = d.rstrip("/")
    last = os.path.basename(d)
    if re.fullmatch(r"C\d\d-m\d+", last):
        return last, last.split("-")[0]
    prop = os.path.basename(os.path.dirname(d))
    return "%s-%s" % (prop, last), prop


def main():
    args = sys.argv[1:]
    rnd = None
    if args and args[0] == "--round":
        rnd = int(args[1])
        args = args[2:]
    base = subprocess.run(["git", "-C", "/repo", "rev-parse", "--short", "HEAD"], capture_output=True, text=True).stdout.strip()
    for jf in args:
        for r in json.load(open(jf)):
            d = r["dir"]
            sid, prop = sid_of(d)
            confirmed = r.get("demo_pristine_ok") and r.get("patch_applies") and r.get("demo_fails_with_patch") and r.get("tests_pass")
            if not confirmed:
                print("NOT CONFIRMED", sid, {k: r.get(k) for k in ("demo_pristine_ok", "patch_applies", "demo_fails_with_patch", "tests_pass")})
                continue
            out = os.path.join(VERIF, "seeded", sid)
            os.makedirs(out, exist_ok=True)
            old = {}
            if os.path.exists(os.path.join(out, "meta.json")):
                old = json.load(open(os.path.join(out, "meta.json")))
            if os.path.abspath(d) != os.path.abspath(out):
                for f in ("patch.diff", "demo.py", "notes.md"):
                    if os.path.exists(os.path.join(d, f)):
                        shutil.copy(os.path.join(d, f), os.path.join(out, f))
            notes = open(os.path.join(out, "notes.md")).read().strip() if os.path.exists(os.path.join(out, "notes.md")) else ""
            reports = {p: v["violations"] for p, v in r.get("checks", {}).items() if v["violations"] and v["exit"] == 1}
            expect = {}
            for p, vs in reports.items():
                m = re.search(r"role=(\S+)", vs[0])
                if m:
                    expect[p] = "role=" + m.group(1)
            meta = {
                "id": sid, "property": prop,
                "origin": "independent sub-agent given only the property text and a scratch worktree",
                "round": rnd if rnd is not None else old.get("round", 1),
                "base": base,
                "needs_to_manifest": notes[:1500],
                "confirmed": {"demo_passes_on_pristine": True, "patch_applies": True,
                              "test_suite_passes_with_patch": r.get("tests_tail"),
                              "demo_fails_with_patch": r.get("demo_tail")},
                "what_i_ran": "tools/seedcheck.py: scratch git worktree of /repo HEAD (%s); demo on pristine; git apply patch.diff; "
                              "pytest pyformlang (289 tests); demo with patch; ./check <prop> --no-cache with "
                              "VERIF_REPO=<worktree> for every claimed property" % base,
                "checks_run": sorted(r.get("checks", {})),
                "detected_by": r.get("detected_by", []),
                "reports": reports,
                "expect_roles": expect,
                "analysis_error_in": r.get("analysis_error_in", []),
            }
            json.dump(meta, open(os.path.join(out, "meta.json"), "w"), indent=1)
            print("imported", sid, "detected_by", meta["detected_by"], "errors_in", meta["analysis_error_in"])


if __name__ == "__main__":
    main()
