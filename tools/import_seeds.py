#!/usr/bin/env python3
"""Copy confirmed seeded changes (patch.diff, demo.py, notes.md + result of tools/seedcheck.py) into /verif/seeded/."""
import json, os, shutil, sys, glob
VERIF = os.path.dirname(os.path.dirname(os.path.abspath(__file__)))
resdir = sys.argv[1]
for jf in sorted(glob.glob(os.path.join(resdir, "*.json"))):
    for r in json.load(open(jf)):
        d = r["dir"]
        prop, m = d.rstrip("/").split("/")[-2:]
        sid = "%s-%s" % (prop, m)
        confirmed = r.get("demo_pristine_ok") and r.get("patch_applies") and r.get("demo_fails_with_patch") and r.get("tests_pass")
        if not confirmed:
            print("NOT CONFIRMED", sid, {k: r.get(k) for k in ("demo_pristine_ok", "patch_applies", "demo_fails_with_patch", "tests_pass")})
            continue
        out = os.path.join(VERIF, "seeded", sid)
        os.makedirs(out, exist_ok=True)
        for f in ("patch.diff", "demo.py", "notes.md"):
            if os.path.exists(os.path.join(d, f)):
                shutil.copy(os.path.join(d, f), os.path.join(out, f))
        notes = open(os.path.join(d, "notes.md")).read().strip() if os.path.exists(os.path.join(d, "notes.md")) else ""
        meta = {
            "id": sid, "property": prop, "origin": "independent sub-agent given only the property text and a scratch worktree",
            "needs_to_manifest": notes[:1500],
            "confirmed": {"demo_passes_on_pristine": True, "patch_applies": True, "test_suite_passes_with_patch": r.get("tests_tail"),
                          "demo_fails_with_patch": r.get("demo_tail")},
            "what_i_ran": "tools/seedcheck.py: scratch git worktree of /repo; demo on pristine; git apply patch.diff; pytest "
                          "pyformlang (289 tests); demo with patch; ./check <props> --no-cache with VERIF_REPO=<worktree>",
            "checks_run": sorted(r.get("checks", {})),
            "detected_by": r.get("detected_by", []),
            "reports": {p: v["violations"] for p, v in r.get("checks", {}).items() if v["violations"]},
            "analysis_error_in": r.get("analysis_error_in", []),
        }
        json.dump(meta, open(os.path.join(out, "meta.json"), "w"), indent=1)
        print("imported", sid, "detected_by", meta["detected_by"])
