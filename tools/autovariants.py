#!/venv/bin/python
"""Automatically generated behaviour-preserving variants (self-test, silent direction).

For every function a rule module inspects (ANCHORS below) six whole-function rewrites are produced with `ast`:

  rename    every local variable (not parameters, not names used by nested scopes) gets an unrelated name `loc<k>q`
  reformat  the function is re-emitted by ast.unparse (layout, parentheses, quotes and comments change)
  negate    every `if c: A else: B` with both branches present becomes `if not c: B else: A`
  earlycontinue  `for ..: if c: BODY` becomes `for ..: if not c: continue; BODY`
  whilelen  `while xs:` becomes `while len(xs) > 0:` for worklists
  alias     repeated reads of `self._f` (never assigned in the function) go through a local bound at the top

Each variant must compile, and the property's check on it must NOT report a VIOLATION that the unchanged tree does not
report (exit 0, or exit 2 = `cannot follow`, are both acceptable; exit 2 is listed so that it can be looked at).

Usage: tools/autovariants.py [--prop Cxx] [--jobs N] [--kinds rename,reformat,negate]"""
import argparse
import ast
import concurrent.futures as cf
import copy
import os
import shutil
import subprocess
import sys
import tempfile

VERIF = os.path.dirname(os.path.dirname(os.path.abspath(__file__)))
REPO = os.environ.get("VERIF_REPO", "/repo")
P = "pyformlang/"
FA = P + "finite_automaton/"

ANCHORS = {
    "C01": [(FA + "epsilon_nfa.py", "accepts"), (FA + "epsilon_nfa.py", "eclose"), (FA + "epsilon_nfa.py", "eclose_iterable"),
            (FA + "epsilon_nfa.py", "_to_deterministic_internal"), (FA + "epsilon_nfa.py", "remove_epsilon_transitions"),
            (FA + "epsilon_nfa.py", "copy"), (FA + "deterministic_finite_automaton.py", "minimize"),
            (FA + "deterministic_finite_automaton.py", "copy"), (FA + "deterministic_finite_automaton.py", "_get_partition")],
    "C02": [(FA + "deterministic_finite_automaton.py", "is_equivalent_to"),
            (FA + "deterministic_finite_automaton.py", "_is_equivalent_to_minimal"),
            (FA + "deterministic_finite_automaton.py", "_get_partition"), (FA + "finite_automaton.py", "is_equivalent_to")],
    "C03": [(FA + "epsilon_nfa.py", "get_complement"), (FA + "epsilon_nfa.py", "get_intersection"),
            (FA + "epsilon_nfa.py", "get_difference"), (FA + "epsilon_nfa.py", "reverse"), (FA + "regexable.py", "union")],
    "C04": [(FA + "epsilon_nfa.py", "is_empty"), (FA + "epsilon_nfa.py", "is_deterministic"),
            (FA + "finite_automaton.py", "is_acyclic"), (FA + "finite_automaton.py", "get_accepted_words")],
    "C05": [(P + "regular_expression/regex_reader.py", "_set_end_first_group_in_components"),
            (P + "regular_expression/regex_reader.py", "_setup_non_trivial_regex"),
            (P + "regular_expression/regex.py", "_process_to_enfa_kleene_star"),
            (P + "regular_expression/regex.py", "_create_union_branch_in_enfa"),
            (P + "regular_expression/regex.py", "union"), (P + "regular_expression/regex_objects.py", "to_node")],
    "C06": [(FA + "epsilon_nfa.py", "to_regex"), (FA + "epsilon_nfa.py", "_remove_state"),
            (FA + "epsilon_nfa.py", "_create_or_transitions"), (FA + "epsilon_nfa.py", "_remove_all_basic_states")],
    "C07": [(P + "regular_expression/python_regex.py", "__init__")],
    "C08": [(P + "cfg/cfg.py", "contains"), (P + "cfg/cyk_table.py", "__init__"), (P + "cfg/cyk_table.py", "_generates_all_terminals"),
            (P + "cfg/cyk_table.py", "_initialize_cyk_table")],
    "C09": [(P + "cfg/cfg.py", "remove_useless_symbols"), (P + "cfg/cfg.py", "to_normal_form"),
            (P + "cfg/cfg.py", "eliminate_unit_productions"), (P + "cfg/cfg.py", "get_unit_pairs")],
    "C10": [(P + "cfg/cfg.py", "substitute"), (P + "cfg/cfg.py", "concatenate"), (P + "cfg/cfg.py", "reverse")],
    "C11": [(P + "cfg/cfg.py", "intersection"), (P + "cfg/cfg.py", "_intersection_when_terminal"),
            (P + "cfg/cfg.py", "_intersection_starting_rules"), (P + "pda/pda.py", "intersection")],
    "C12": [(P + "cfg/cfg.py", "is_empty"), (P + "cfg/cfg.py", "get_generating_symbols"), (P + "cfg/cfg.py", "get_nullable_symbols"),
            (P + "cfg/cfg.py", "_get_generating_or_nullable"), (P + "cfg/cfg.py", "_set_impacts_and_remaining_lists"),
            (P + "cfg/cfg.py", "get_reachable_symbols"), (P + "cfg/cfg.py", "is_finite"), (P + "cfg/cfg.py", "get_words")],
    "C13": [(P + "pda/pda.py", "to_final_state"), (P + "pda/pda.py", "to_empty_stack"), (P + "pda/pda.py", "to_cfg"),
            (P + "cfg/cfg.py", "to_pda")],
    "C14": [(P + "cfg/llone_parser.py", "get_llone_parse_tree"), (P + "cfg/llone_parser.py", "get_llone_parsing_table"),
            (P + "cfg/llone_parser.py", "get_first_set"), (P + "cfg/llone_parser.py", "get_follow_set")],
    "C15": [(P + "fcfg/fcfg.py", "_scanner"), (P + "cfg/recursive_decent_parser.py", "_get_parse_tree_sub"),
            (P + "cfg/cyk_table.py", "_propagate_in_cyk_table"), (P + "cfg/cyk_table.py", "get_parse_tree")],
    "C16": [(P + "fst/fst.py", "kleene_star"), (P + "fst/fst.py", "concatenate"), (P + "fst/fst.py", "translate"),
            (FA + "finite_automaton.py", "to_fst")],
    "C17": [(P + "indexed_grammar/indexed_grammar.py", "is_empty"), (P + "indexed_grammar/indexed_grammar.py", "remove_useless_rules"),
            (P + "indexed_grammar/rules.py", "__init__"), (P + "indexed_grammar/rule_ordering.py", "order_by_edges"),
            (P + "fst/fst.py", "intersection")],
    "C18": [(P + "fcfg/fcfg.py", "_completer"), (P + "fcfg/feature_structure.py", "unify"),
            (P + "fcfg/feature_structure.py", "copy"), (P + "fcfg/feature_structure.py", "subsumes")],
    "C19": [(P + "cfg/cfg.py", "_get_generating_or_nullable"), (P + "cfg/cfg.py", "generate_epsilon"),
            (P + "pda/cfg_variable_converter.py", "_get_state_index"), (FA + "epsilon_nfa.py", "to_regex"),
            (P + "regular_expression/regex.py", "to_epsilon_nfa")],
    "C20": [(FA + "finite_automaton.py", "to_networkx"), (FA + "finite_automaton.py", "from_networkx"),
            (P + "pda/pda.py", "from_networkx"), (P + "cfg/cfg.py", "_read_line"), (P + "rsa/recursive_automaton.py", "from_ebnf")],
}


class Renamer(ast.NodeTransformer):
    def __init__(self, names):
        # new names share no substring with the old ones (a suffix would let text-matching rules keep matching)
        self.names = {n: "loc%dq" % i for i, n in enumerate(sorted(names))}

    def visit_Name(self, node):
        if node.id in self.names:
            return ast.copy_location(ast.Name(id=self.names[node.id], ctx=node.ctx), node)
        return node

    def visit_FunctionDef(self, node):
        return node if getattr(node, "_inner", False) else self.generic_visit(node)

    def visit_Lambda(self, node):
        return self.generic_visit(node)


def local_names(fn):
    params = {a.arg for a in fn.args.posonlyargs + fn.args.args + fn.args.kwonlyargs}
    if fn.args.vararg:
        params.add(fn.args.vararg.arg)
    if fn.args.kwarg:
        params.add(fn.args.kwarg.arg)
    stored = set()
    for sub in ast.walk(fn):
        if isinstance(sub, ast.Name) and isinstance(sub.ctx, ast.Store):
            stored.add(sub.id)
        if isinstance(sub, ast.ExceptHandler) and sub.name:
            pass
    globals_ = {n for sub in ast.walk(fn) if isinstance(sub, (ast.Global, ast.Nonlocal)) for n in sub.names}
    # imports inside the function bind names too: leave them
    imported = {(al.asname or al.name).split(".")[0] for sub in ast.walk(fn) if isinstance(sub, (ast.Import, ast.ImportFrom))
                for al in sub.names}
    return stored - params - globals_ - imported


class Negator(ast.NodeTransformer):
    def visit_If(self, node):
        self.generic_visit(node)
        if node.orelse and not (len(node.orelse) == 1 and isinstance(node.orelse[0], ast.If)):
            return ast.copy_location(ast.If(test=ast.UnaryOp(op=ast.Not(), operand=node.test), body=node.orelse,
                                            orelse=node.body), node)
        return node


class EarlyContinue(ast.NodeTransformer):
    """`for ..: if c: BODY` (the if is the whole loop body, no else) becomes `for ..: if not c: continue; BODY`."""
    def visit_For(self, node):
        self.generic_visit(node)
        if len(node.body) == 1 and isinstance(node.body[0], ast.If) and not node.body[0].orelse and not node.orelse:
            inner = node.body[0]
            guard = ast.If(test=ast.UnaryOp(op=ast.Not(), operand=inner.test), body=[ast.Continue()], orelse=[])
            node.body = [guard] + inner.body
        return node


class WhileLen(ast.NodeTransformer):
    """`while xs:` becomes `while len(xs) > 0:` when xs is used as a list / deque in the function (pop / append)."""
    def __init__(self, listlike):
        self.listlike = listlike

    def visit_While(self, node):
        self.generic_visit(node)
        if isinstance(node.test, ast.Name) and node.test.id in self.listlike:
            node.test = ast.Compare(left=ast.Call(func=ast.Name(id="len", ctx=ast.Load()), args=[node.test], keywords=[]),
                                    ops=[ast.Gt()], comparators=[ast.Constant(value=0)])
        return node


class AliasFields(ast.NodeTransformer):
    """Reads of `self._f` (never assigned in the function, read at least twice) go through a local alias bound once at
    the top of the function."""
    def __init__(self, fields):
        self.fields = fields

    def visit_Attribute(self, node):
        self.generic_visit(node)
        if isinstance(node.value, ast.Name) and node.value.id == "self" and node.attr in self.fields and \
                isinstance(node.ctx, ast.Load):
            return ast.copy_location(ast.Name(id=self.fields[node.attr], ctx=ast.Load()), node)
        return node

    def visit_FunctionDef(self, node):
        return node if getattr(node, "_inner", False) else self.generic_visit(node)


def aliasable_fields(fn):
    if not fn.args.args or fn.args.args[0].arg != "self":
        return {}
    reads, stored = {}, set()
    for sub in ast.walk(fn):
        if isinstance(sub, ast.Attribute) and isinstance(sub.value, ast.Name) and sub.value.id == "self":
            if isinstance(sub.ctx, ast.Load):
                reads[sub.attr] = reads.get(sub.attr, 0) + 1
            else:
                stored.add(sub.attr)
    # only data fields (leading underscore), not methods that are called
    called = {c.func.attr for c in ast.walk(fn) if isinstance(c, ast.Call) and isinstance(c.func, ast.Attribute)
              and isinstance(c.func.value, ast.Name) and c.func.value.id == "self"}
    rebinding = any(isinstance(sub, (ast.Global, ast.Nonlocal)) for sub in ast.walk(fn))
    if rebinding:
        return {}
    return {f: "fld%dq" % i for i, f in enumerate(sorted(reads)) if reads[f] >= 2 and f not in stored
            and f not in called and f.startswith("_") and not f.startswith("__")}


def find_functions(tree, name):
    out = []
    for sub in ast.walk(tree):
        if isinstance(sub, ast.FunctionDef) and sub.name == name:
            out.append(sub)
    return out


def make_variant(src, fname, kind, which=0):
    tree = ast.parse(src)
    fns = find_functions(tree, fname)
    if which >= len(fns):
        return None
    fn = fns[which]
    lines = src.splitlines(keepends=True)
    if kind == "rename":
        names = local_names(fn)
        if not names:
            return None
        new_fn = Renamer(names).visit(copy.deepcopy(fn))
    elif kind == "negate":
        new_fn = Negator().visit(copy.deepcopy(fn))
        if ast.dump(new_fn) == ast.dump(fn):
            return None
    elif kind == "earlycontinue":
        new_fn = EarlyContinue().visit(copy.deepcopy(fn))
        if ast.dump(new_fn) == ast.dump(fn):
            return None
    elif kind == "whilelen":
        listlike = {ast.unparse(c.func.value) for c in ast.walk(fn) if isinstance(c, ast.Call)
                    and isinstance(c.func, ast.Attribute) and c.func.attr in ("pop", "popleft")}
        new_fn = WhileLen(listlike).visit(copy.deepcopy(fn))
        if ast.dump(new_fn) == ast.dump(fn):
            return None
    elif kind == "alias":
        fields = aliasable_fields(fn)
        # a field that some method other than __init__ re-binds may change under a call made by the function: leave it
        rebound = set()
        for cls in ast.walk(tree):
            if isinstance(cls, ast.ClassDef):
                for m in cls.body:
                    if isinstance(m, ast.FunctionDef) and m.name != "__init__":
                        for sub in ast.walk(m):
                            if isinstance(sub, ast.Attribute) and isinstance(sub.value, ast.Name) and sub.value.id == "self" \
                                    and isinstance(sub.ctx, (ast.Store, ast.Del)):
                                rebound.add(sub.attr)
        fields = {k: v for k, v in fields.items() if k not in rebound}
        if not fields:
            return None
        new_fn = AliasFields(fields).visit(copy.deepcopy(fn))
        binds = [ast.Assign(targets=[ast.Name(id=v, ctx=ast.Store())],
                            value=ast.Attribute(value=ast.Name(id="self", ctx=ast.Load()), attr=k, ctx=ast.Load()))
                 for k, v in sorted(fields.items())]
        at = 1 if (new_fn.body and isinstance(new_fn.body[0], ast.Expr) and isinstance(new_fn.body[0].value, ast.Constant)) else 0
        new_fn.body[at:at] = binds
    else:
        new_fn = copy.deepcopy(fn)
    ast.fix_missing_locations(new_fn)
    text = ast.unparse(new_fn)
    indent = " " * fn.col_offset
    text = "".join(indent + ln + "\n" for ln in text.splitlines())
    start = (fn.decorator_list[0].lineno if fn.decorator_list else fn.lineno) - 1
    end = fn.end_lineno
    return "".join(lines[:start]) + text + "".join(lines[end:])


def baseline(prop):
    env = dict(os.environ, VERIF_EVIDENCE_DIR=tempfile.mkdtemp(prefix="pfl-auto-ev-"))
    p = subprocess.run([os.path.join(VERIF, "check"), prop], cwd=VERIF, env=env, capture_output=True, text=True, timeout=1500)
    shutil.rmtree(env["VERIF_EVIDENCE_DIR"], ignore_errors=True)
    return {l.strip() for l in p.stdout.splitlines() if l.startswith("  rule=")}, p.returncode


def run_one(job):
    prop, rel, fname, kind, which = job
    with open(os.path.join(REPO, rel), encoding="utf-8") as fh:
        src = fh.read()
    try:
        new = make_variant(src, fname, kind, which)
    except Exception as exc:  # pragma: no cover
        return dict(job=job, status="gen-error", why=str(exc))
    if new is None:
        return dict(job=job, status="n/a")
    try:
        compile(new, rel, "exec")
    except SyntaxError as exc:
        return dict(job=job, status="gen-error", why="does not compile: %s" % exc)
    tmp = tempfile.mkdtemp(prefix="pfl-auto-")
    try:
        shutil.copytree(os.path.join(REPO, "pyformlang"), os.path.join(tmp, "pyformlang"),
                        ignore=shutil.ignore_patterns("tests", "__pycache__", "*.pyc"))
        with open(os.path.join(tmp, rel), "w", encoding="utf-8") as fh:
            fh.write(new)
        env = dict(os.environ, VERIF_REPO=tmp, VERIF_EVIDENCE_DIR=os.path.join(tmp, "ev"))
        p = subprocess.run([os.path.join(VERIF, "check"), prop, "--no-cache"], cwd=VERIF, env=env, capture_output=True,
                           text=True, timeout=1500)
        viol = {l.strip() for l in p.stdout.splitlines() if l.startswith("  rule=")}
        errs = [l.strip()[:220] for l in p.stdout.splitlines() if l.startswith("ANALYSIS-ERROR")]
        return dict(job=job, status="done", exit=p.returncode, viol=viol, errs=errs)
    finally:
        shutil.rmtree(tmp, ignore_errors=True)


def main():
    ap = argparse.ArgumentParser()
    ap.add_argument("--prop")
    ap.add_argument("--jobs", type=int, default=min(16, os.cpu_count() or 4))
    ap.add_argument("--kinds", default="rename,reformat,negate,earlycontinue,whilelen,alias")
    a = ap.parse_args()
    props = [a.prop.upper()] if a.prop else sorted(ANCHORS)
    kinds = a.kinds.split(",")
    jobs = []
    for prop in props:
        for rel, fname in ANCHORS[prop]:
            with open(os.path.join(REPO, rel), encoding="utf-8") as fh:
                n = len(find_functions(ast.parse(fh.read()), fname))
            for which in range(n):
                for kind in kinds:
                    jobs.append((prop, rel, fname, kind, which))
    base = {prop: baseline(prop)[0] for prop in props}
    bad = 0
    n_done = n_err = 0
    with cf.ThreadPoolExecutor(max_workers=a.jobs) as ex:
        for r in ex.map(run_one, jobs):
            prop, rel, fname, kind, which = r["job"]
            tag = "%s %s:%s[%d] %s" % (prop, rel.split("/")[-1], fname, which, kind)
            if r["status"] == "n/a":
                continue
            if r["status"] == "gen-error":
                print("GEN-ERROR", tag, r["why"])
                continue
            n_done += 1
            new = r["viol"] - base[prop]
            if new:
                bad += 1
                print("FALSE-ALARM", tag)
                for v in sorted(new):
                    print("     ", v)
            elif r["exit"] == 2:
                n_err += 1
                print("cannot-follow", tag, (r["errs"] or [""])[0][:160])
            else:
                print("ok", tag)
    print("autovariants: %d variants, %d false alarms, %d cannot-follow" % (n_done, bad, n_err))
    sys.exit(2 if bad else 0)


if __name__ == "__main__":
    main()
