"""Print python sources without docstrings/blank lines (reading aid, not a check)."""
import ast, sys
for f in sys.argv[1:]:
    src = open(f).read()
    tree = ast.parse(src)
    rm = set()
    for n in ast.walk(tree):
        if isinstance(n, (ast.FunctionDef, ast.ClassDef, ast.Module, ast.AsyncFunctionDef)):
            b = n.body
            if b and isinstance(b[0], ast.Expr) and isinstance(b[0].value, ast.Constant) and isinstance(b[0].value.value, str):
                for l in range(b[0].lineno, b[0].end_lineno + 1):
                    rm.add(l)
    print("=====", f)
    for i, l in enumerate(src.splitlines(), 1):
        if i in rm or not l.strip():
            continue
        print(f"{i}\t{l}")
