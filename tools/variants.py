"""Self-test variants: one edit each, applied to a scratch copy of the current tree.

kind=break    : the edit breaks exactly one obligation; `expect` is the role that must be named
kind=preserve : behaviour-preserving edit; the verdict must not change
"""
FA = "pyformlang/finite_automaton/"
V = []


def b(id, prop, file, old, new, expect):
    V.append(dict(id=id, prop=prop, file=file, old=old, new=new, expect=expect, kind="break"))


def p(id, prop, file, old, new):
    V.append(dict(id=id, prop=prop, file=file, old=old, new=new, kind="preserve"))


# ----------------------------------------------------------------------------- C01
b("c01-accepts-no-eclose-step", "C01", FA + "epsilon_nfa.py",
  "            current_states = self.eclose_iterable(next_states)\n",
  "            current_states = next_states\n", "finality-range")
b("c01-accepts-no-eclose-start", "C01", FA + "epsilon_nfa.py",
  "        current_states = self.eclose_iterable(self._start_state)\n        for symbol in word:",
  "        current_states = self._start_state\n        for symbol in word:", "finality-range")
b("c01-subset-no-eclose-succ", "C01", FA + "epsilon_nfa.py",
  "                if eclose:\n                    state = self.eclose_iterable(state)\n",
  "", "dfa-state-arg")
b("c01-subset-no-eclose-start", "C01", FA + "epsilon_nfa.py",
  "            start_eclose = self.eclose_iterable(self._start_state)\n        else:",
  "            start_eclose = self._start_state\n        else:", "dfa-state-arg")
b("c01-copy-drops-eps", "C01", FA + "epsilon_nfa.py",
  "            states = self._transition_function(state, Epsilon())\n            for state_to in states:\n                enfa.add_transition(state, Epsilon(), state_to)\n",
  "", "eps-edge->add_transition")
b("c01-copy-drops-final", "C01", FA + "epsilon_nfa.py",
  "        for final in self._final_states:\n            enfa.add_final_state(final)\n        for state in self._states:\n            for symbol in self._input_symbols:\n                states",
  "        for state in self._states:\n            for symbol in self._input_symbols:\n                states",
  "final->add_final_state")
b("c01-copy-swaps-direction", "C01", FA + "epsilon_nfa.py",
  "                for state_to in states:\n                    enfa.add_transition(state, symbol, state_to)\n",
  "                for state_to in states:\n                    enfa.add_transition(state_to, symbol, state)\n",
  "edge.src->add_transition#0")
b("c01-remove-eps-no-closure-final", "C01", FA + "epsilon_nfa.py",
  "                if e_state in self._final_states:\n                    nfa.add_final_state(state)\n",
  "                if state in self._final_states:\n                    nfa.add_final_state(state)\n", "final-guard")
b("c01-remove-eps-reads-state", "C01", FA + "epsilon_nfa.py",
  "                    for next_state in self._transition_function(e_state, symb):",
  "                    for next_state in self._transition_function(state, symb):", "delta-src")
b("c01-eclose-follows-symbols", "C01", FA + "epsilon_nfa.py",
  "            connected = self._transition_function(current, Epsilon())\n",
  "            connected = self._transition_function(current)\n", "eclose-follows-epsilon")
b("c01-minimize-keeps-unreachable", "C01", FA + "deterministic_finite_automaton.py",
  "        states = self._states.intersection(reachables)\n", "        states = self._states\n", "states-filter")
b("c01-dfa-returns-nfa", "C01", FA + "epsilon_nfa.py",
  "        dfa = finite_automaton.DeterministicFiniteAutomaton()\n        # Add Eclose",
  "        dfa = finite_automaton.NondeterministicFiniteAutomaton()\n        # Add Eclose", "return-class")
b("c01-nfa-accepts-epsilon-edge", "C01", FA + "nondeterministic_finite_automaton.py",
  "        if symb_by == epsilon.Epsilon():\n            raise InvalidEpsilonTransition\n", "", "nfa-rejects-epsilon")
p("c01-p-rename-local", "C01", FA + "epsilon_nfa.py",
  "        current_states = self.eclose_iterable(self._start_state)\n        for symbol in word:\n            if symbol == Epsilon():\n                continue\n            next_states = self._get_next_states_iterable(current_states,\n                                                         symbol)\n            current_states = self.eclose_iterable(next_states)\n        return any(self.is_final_state(x) for x in current_states)",
  "        cur = self.eclose_iterable(self._start_state)\n        for symbol in word:\n            if symbol == Epsilon():\n                continue\n            nxt = self._get_next_states_iterable(cur, symbol)\n            cur = self.eclose_iterable(nxt)\n        return any(self.is_final_state(x) for x in cur)")
p("c01-p-loop-instead-of-any", "C01", FA + "epsilon_nfa.py",
  "        return any(self.is_final_state(x) for x in current_states)\n\n    def eclose_iterable",
  "        for x in current_states:\n            if self.is_final_state(x):\n                return True\n        return False\n\n    def eclose_iterable")
p("c01-p-inline-helper", "C01", FA + "epsilon_nfa.py",
  "            next_states = self._get_next_states_iterable(current_states,\n                                                         symbol)\n            current_states = self.eclose_iterable(next_states)\n        return any(self.is_final_state(x) for x in current_states)",
  "            next_states = set()\n            for cur in current_states:\n                next_states = next_states.union(self._transition_function(cur, symbol))\n            current_states = self.eclose_iterable(next_states)\n        return any(self.is_final_state(x) for x in current_states)")

# ----------------------------------------------------------------------------- C19
b("c19-to-regex-no-copy", "C19", FA + "epsilon_nfa.py",
  "        enfas = [self.copy() for _ in self._final_states]", "        enfas = [self for _ in self._final_states]",
  "operand-write")
b("c19-difference-no-copy", "C19", FA + "epsilon_nfa.py",
  "        other = other.copy()\n        for symbol in self._input_symbols:", "        for symbol in self._input_symbols:",
  "operand-write:arg._input_symbols")
b("c19-no-restore", "C19", "pyformlang/cfg/cfg.py",
  "        for symbol_impact, index_impact in processed_with_modification:\n            self._remaining_lists[symbol_impact][index_impact] += 1\n",
  "", "scratch-restore")
b("c19-generate-epsilon-no-deepcopy", "C19", "pyformlang/cfg/cfg.py",
  "        remaining_lists = deepcopy(remaining_lists)\n", "", "scratch-restore")
b("c19-to-final-state-shares-tf", "C19", "pyformlang/pda/pda.py",
  "        new_tf = self._transition_function.copy()\n        new_tf.add_transition(new_start, Epsilon(), new_stack_symbol,\n                              self._start_state, [self._start_stack_symbol,\n                                                  new_stack_symbol])\n        for state in self._states:\n            new_tf.add_transition(state, Epsilon(), new_stack_symbol,\n                                  new_end, [])",
  "        new_tf = self._transition_function\n        new_tf.add_transition(new_start, Epsilon(), new_stack_symbol,\n                              self._start_state, [self._start_stack_symbol,\n                                                  new_stack_symbol])\n        for state in self._states:\n            new_tf.add_transition(state, Epsilon(), new_stack_symbol,\n                                  new_end, [])",
  "operand-write:self._transition_function._transitions")
b("c19-copy-returns-self", "C19", FA + "epsilon_nfa.py",
  "    def __copy__(self):\n        return self.copy()", "    def __copy__(self):\n        return self", "returns-alias:self")
b("c19-normal-form-unguarded", "C19", "pyformlang/cfg/cfg.py",
  "    def get_generating_symbols(self) -> AbstractSet[CFGObject]:\n        \"\"\" Gives the objects which are generating in the CFG\n\n        Returns\n        ----------\n        generating_symbols : set of :class:`~pyformlang.cfg.CFGObject`\n            The generating symbols of the CFG\n        \"\"\"\n        if self._generating_symbols is None:\n            self._generating_symbols = self._get_generating_or_nullable(False)",
  "    def get_generating_symbols(self) -> AbstractSet[CFGObject]:\n        \"\"\" Gives the objects which are generating in the CFG\n\n        Returns\n        ----------\n        generating_symbols : set of :class:`~pyformlang.cfg.CFGObject`\n            The generating symbols of the CFG\n        \"\"\"\n        if True:\n            self._generating_symbols = self._nullable_symbols",
  "cache-assign-unguarded")
p("c19-p-copy-via-local", "C19", FA + "epsilon_nfa.py",
  "        other = other.copy()\n        for symbol in self._input_symbols:\n            other.add_symbol(symbol)\n        return self.get_intersection(other.get_complement())",
  "        mine = other.copy()\n        for symbol in self._input_symbols:\n            mine.add_symbol(symbol)\n        return self.get_intersection(mine.get_complement())")

# ----------------------------------------------------------------------------- C03
b("c03-inter-no-eclose-start-other", "C03", FA + "epsilon_nfa.py",
  "            for st1 in other.eclose_iterable(other.start_states):", "            for st1 in other.start_states:",
  "pair-coord-1")
b("c03-inter-no-eclose-succ-self", "C03", FA + "epsilon_nfa.py",
  "                for new_s0 in self.eclose_iterable(self(st0, symb)):", "                for new_s0 in self(st0, symb):",
  "pair-coord-0")
b("c03-inter-final-only-self", "C03", FA + "epsilon_nfa.py",
  "        for st0 in self.final_states:\n            for st1 in other.final_states:\n                enfa.add_final_state(combine_state_pair(st0, st1))",
  "        for st0 in self.final_states:\n            for st1 in other.states:\n                enfa.add_final_state(combine_state_pair(st0, st1))",
  "final-pairs-depend-on-other")
b("c03-inter-symbols-only-self", "C03", FA + "epsilon_nfa.py",
  "        symbols = list(self.symbols.intersection(other.symbols))", "        symbols = list(self.symbols)",
  "alphabet-depend-on-other")
b("c03-difference-no-alphabet", "C03", FA + "epsilon_nfa.py",
  "        other = other.copy()\n        for symbol in self._input_symbols:\n            other.add_symbol(symbol)\n",
  "        other = other.copy()\n", "add_symbol-receiver")
b("c03-difference-wrong-order", "C03", FA + "epsilon_nfa.py",
  "        return self.get_intersection(other.get_complement())", "        return other.get_complement().get_intersection(other)",
  "difference=self&complement")
b("c03-reverse-keeps-start", "C03", FA + "epsilon_nfa.py",
  "        for start in self._start_state:\n            enfa.add_final_state(start)\n        for final in self._final_states:\n            enfa.add_start_state(final)",
  "        for start in self._start_state:\n            enfa.add_start_state(start)\n        for final in self._final_states:\n            enfa.add_final_state(final)",
  "start->add_final_state")
b("c03-reverse-no-eps", "C03", FA + "epsilon_nfa.py",
  "            for state1 in self._transition_function(state0, Epsilon()):\n                enfa.add_transition(state1, Epsilon(), state0)\n",
  "", "eps-edge.dst->add_transition#0")
b("c03-reverse-keeps-direction", "C03", FA + "epsilon_nfa.py",
  "                for state1 in self._transition_function(state0, symbol):\n                    enfa.add_transition(state1, symbol, state0)",
  "                for state1 in self._transition_function(state0, symbol):\n                    enfa.add_transition(state0, symbol, state1)",
  "edge.dst->add_transition#0")
b("c03-union-uses-concat", "C03", FA + "regexable.py",
  "        regex = regex0 | regex1\n", "        regex = regex0 + regex1\n", "combinator=Regex.union")
b("c03-concat-drops-other", "C03", FA + "regexable.py",
  "        regex = regex0 + regex1\n", "        regex = regex0 + regex0\n", "combinator=Regex.concatenate")
b("c03-neg-is-reverse", "C03", FA + "epsilon_nfa.py",
  "        return self.get_complement()\n\n    def get_intersection", "        return self.reverse()\n\n    def get_intersection",
  "delegates-to:get_complement")
b("c03-complement-on-dfa-only-symbols-of-trash", "C03", FA + "epsilon_nfa.py",
  "                if not state_to:\n                    enfa.add_transition(state, symbol, trash)",
  "                if state_to:\n                    pass\n                enfa.add_transition(state, symbol, trash)",
  "completion-depends-on-delta")
b("c03-trash-bare-ctor", "C03", FA + "epsilon_nfa.py",
  "        trash = State(\"TrashNode\")\n        idx = 0\n        while trash in self._states:\n            trash = State(\"TrashNode\" + str(idx))\n            idx += 1\n",
  "        trash = State(\"TrashNode\")\n", "trash-name")
p("c03-p-inter-locals", "C03", FA + "epsilon_nfa.py",
  "        for st0 in self.eclose_iterable(self.start_states):\n            for st1 in other.eclose_iterable(other.start_states):",
  "        starts0 = self.eclose_iterable(self.start_states)\n        starts1 = other.eclose_iterable(other.start_states)\n        for st0 in starts0:\n            for st1 in starts1:")
p("c03-p-difference-inline", "C03", FA + "epsilon_nfa.py",
  "        return self.get_intersection(other.get_complement())", "        comp = other.get_complement()\n        res = self.get_intersection(comp)\n        return res")

# ----------------------------------------------------------------------------- C02
DFAF = FA + "deterministic_finite_automaton.py"
b("c02-no-minimize-other", "C02", DFAF,
  "        other_minimal = other.minimize()\n", "        other_minimal = other\n", "walk-args-minimised")
b("c02-no-determinise-other", "C02", DFAF,
  "        if not isinstance(other, DeterministicFiniteAutomaton):\n            other_dfa = other.to_deterministic()\n            return self.is_equivalent_to(other_dfa)\n",
  "", "other-determinised")
b("c02-walk-ignores-final", "C02", DFAF,
  "            if (self_minimal.is_final_state(current_self)\n                    and not other_minimal.is_final_state(current_other)) or \\\n                    (not self_minimal.is_final_state(current_self)\n                     and other_minimal.is_final_state(current_other)):\n                return False\n",
  "", "verdict-depends-on-final")
b("c02-walk-ignores-symbol", "C02", DFAF,
  "                if next_symbol_other != next_symbol_self:\n                    return False\n", "", "verdict-depends-on-symbol")
b("c02-eq-is-identity", "C02", FA + "finite_automaton.py",
  "    def __eq__(self, other):\n        return self.is_equivalent_to(other)", "    def __eq__(self, other):\n        return self is other",
  "eq-delegates-to")
b("c02-partition-one-class", "C02", DFAF,
  "            if state in self._final_states:\n                finals.append(state)\n            else:\n                non_finals.append(state)",
  "            non_finals.append(state)", "initial-split-on-final")
p("c02-p-locals", "C02", DFAF,
  "        self_minimal = self.minimize()\n        other_minimal = other.minimize()\n        return self._is_equivalent_to_minimal(self_minimal, other_minimal)",
  "        return self._is_equivalent_to_minimal(self.minimize(), other.minimize())")

# ----------------------------------------------------------------------------- C04
b("c04-empty-ignores-eps", "C04", FA + "epsilon_nfa.py",
  "            for state in self._transition_function(current, Epsilon()):\n                if state not in processed:\n                    to_process.append(state)\n                    processed.add(state)\n        return True",
  "        return True", "is_empty-depends-on-epsilon-edges")
b("c04-empty-ignores-final", "C04", FA + "epsilon_nfa.py",
  "            if current in self._final_states:\n                return False\n            for symbol in self._input_symbols:\n                for state in self._transition_function(current, symbol):\n                    if state not in processed:",
  "            if current in self._states and not self._input_symbols:\n                return False\n            for symbol in self._input_symbols:\n                for state in self._transition_function(current, symbol):\n                    if state not in processed:",
  "is_empty-depends-on-final")
b("c04-deterministic-ignores-eclose", "C04", FA + "epsilon_nfa.py",
  "            and self._transition_function.is_deterministic()\\\n            and all({x} == self.eclose(x) for x in self._states)",
  "            and self._transition_function.is_deterministic()", "is_deterministic-depends-on-epsilon-closure")
b("c04-deterministic-ignores-starts", "C04", FA + "nondeterministic_finite_automaton.py",
  "        return len(self._start_state) <= 1 and \\\n            self._transition_function.is_deterministic()",
  "        return self._transition_function.is_deterministic()", "is_deterministic-depends-on-number-of-start-states")
b("c04-acyclic-ignores-eps", "C04", FA + "finite_automaton.py",
  "            # Epsilon\n            for state in self(current, Epsilon()):\n                to_process.append((state, visited.copy()))\n",
  "", "is_acyclic-depends-on-epsilon-edges")
b("c04-words-append-epsilon", "C04", FA + "finite_automaton.py",
  "                    if symbol != Epsilon():\n                        temp_word.append(symbol)", "                    temp_word.append(symbol)",
  "epsilon-not-appended")
b("c04-words-unbounded", "C04", FA + "finite_automaton.py",
  "            if max_length is not None and len(current_word) > max_length:\n                continue\n", "",
  "length-bound-guards-expansion")
b("c04-words-duplicate-yield", "C04", FA + "finite_automaton.py",
  "                if self.__try_add(yielded_words, word_to_add):\n                    yield current_word",
  "                yield current_word", "yield-guarded-by-duplicate-set")
p("c04-p-empty-rename", "C04", FA + "epsilon_nfa.py",
  "            if current in self._final_states:\n                return False\n            for symbol in self._input_symbols:\n                for state in self._transition_function(current, symbol):\n                    if state not in processed:",
  "            if self.is_final_state(current):\n                return False\n            for symbol in self._input_symbols:\n                for state in self._transition_function(current, symbol):\n                    if state not in processed:")

p("c05-p-guard-len-ge-1", "C05", "pyformlang/regular_expression/regex_reader.py",
  '        return bool(self._components) and self._components[0] == "("',
  '        return len(self._components) >= 1 and self._components[0] == "("')
p("c05-p-guard-not-empty-list", "C05", "pyformlang/regular_expression/regex_reader.py",
  '        return bool(self._components) and self._components[0] == "("',
  '        return self._components != [] and self._components[0] == "("')
p("c05-p-guard-0-lt-len", "C05", "pyformlang/regular_expression/regex_reader.py",
  '        return bool(self._components) and self._components[0] == "("',
  '        return 0 < len(self._components) and self._components[0] == "("')
b("c05-guard-len-ge-0", "C05", "pyformlang/regular_expression/regex_reader.py",
  '        return bool(self._components) and self._components[0] == "("',
  '        return len(self._components) >= 0 and self._components[0] == "("', "token-index-unguarded")
# ----------------------------------------------------------------------------- C06
b("c06-no-initial-merge", "C06", FA + "epsilon_nfa.py",
  "        self._create_or_transitions()\n        states = self._states.copy()", "        states = self._states.copy()",
  "merged-before-elimination")
b("c06-no-trailing-merge", "C06", FA + "epsilon_nfa.py",
  "        # We make sure the automaton has the good structure\n        self._create_or_transitions()\n", "",
  "merged-before-elimination")
b("c06-remove-state-ignores-eps", "C06", FA + "epsilon_nfa.py",
  "        for symbol in self._input_symbols.union({Epsilon()}):\n            out_states = self._transition_function(state, symbol).copy()",
  "        for symbol in self._input_symbols:\n            out_states = self._transition_function(state, symbol).copy()",
  "outgoing-edges-cover-epsilon")
b("c06-merge-ignores-eps", "C06", FA + "epsilon_nfa.py",
  "            new_transitions = {}\n            input_symbols = self._input_symbols.copy().union({Epsilon()})",
  "            new_transitions = {}\n            input_symbols = self._input_symbols.copy()", "covers-epsilon-edges")
b("c06-keeps-other-finals", "C06", FA + "epsilon_nfa.py",
  "                if i != j:\n                    enfas[j].remove_final_state(final_states[i])\n",
  "                pass\n", "other-finals-removed")
b("c06-raises-keyerror", "C06", FA + "epsilon_nfa.py",
  "        if not self._final_states or not self._start_state:\n            return \"\"",
  "        if not self._final_states or not self._start_state:\n            raise KeyError(\"nothing\")", "raise:KeyError")
p("c06-p-rename", "C06", FA + "epsilon_nfa.py",
  "        for enfa in enfas:\n            # pylint: disable=protected-access\n            enfa._remove_all_basic_states()\n            # pylint: disable=protected-access\n            regex_sub = enfa._get_regex_simple()",
  "        for one in enfas:\n            one._remove_all_basic_states()\n            regex_sub = one._get_regex_simple()")

# ----------------------------------------------------------------------------- C08
CYKF = "pyformlang/cfg/cyk_table.py"
b("c08-no-guard", "C08", CYKF,
  "        if not self._generates_all_terminals():\n            self._cyk_table[(0, len(self._word))] = set()\n        else:\n            self._set_cyk_table()",
  "        self._set_cyk_table()", "guarded-lookup")
b("c08-guard-cell-undefined", "C08", CYKF,
  "        if not self._generates_all_terminals():\n            self._cyk_table[(0, len(self._word))] = set()\n        else:",
  "        if not self._generates_all_terminals():\n            pass\n        else:", "full-span-cell-defined-when-unknown-terminal")
b("c08-empty-word-to-cyk", "C08", "pyformlang/cfg/cfg.py",
  "        word = [to_terminal(x) for x in word if x != Epsilon()]\n        if not word:\n            return self.generate_epsilon()\n        cyk_table = CYKTable(self, word)\n        return cyk_table.generate_word()",
  "        word = [to_terminal(x) for x in word if x != Epsilon()]\n        cyk_table = CYKTable(self, word)\n        return cyk_table.generate_word()",
  "cyk-only-for-non-empty-word")
b("c08-verdict-any-variable", "C08", CYKF,
  "        return self._cnf.start_symbol in self._cyk_table[(0, len(self._word))]",
  "        return bool(self._cyk_table[(0, len(self._word))])", "verdict=start-in-full-span-cell")
b("c08-guard-always-true", "C08", CYKF,
  "            if (terminal,) not in self._productions_d:\n                generate_all_terminals = False",
  "            pass", "guard-tests-membership")
b("c08-epsilon-not-filtered", "C08", "pyformlang/cfg/cfg.py",
  "        # Remove epsilons\n        word = [to_terminal(x) for x in word if x != Epsilon()]",
  "        # Remove epsilons\n        word = [to_terminal(x) for x in word]", "epsilon-filtered")
p("c08-p-guard-positive-form", "C08", CYKF,
  "        if not self._generates_all_terminals():\n            self._cyk_table[(0, len(self._word))] = set()\n        else:\n            self._set_cyk_table()",
  "        if self._generates_all_terminals():\n            self._set_cyk_table()\n        else:\n            self._cyk_table[(0, len(self._word))] = set()")

# ----------------------------------------------------------------------------- C09
CFGF = "pyformlang/cfg/cfg.py"
b("c09-reachable-on-self", "C09", CFGF,
  "        reachables = cfg_temp.get_reachable_symbols()", "        reachables = self.get_reachable_symbols()",
  "reachable-computed-on-generating-filtered")
b("c09-no-reachable-filter", "C09", CFGF,
  "        productions = [x for x in productions\n                       if x.head in reachables]\n", "",
  "productions-filtered-by-reachable")
b("c09-pipeline-skips-unit", "C09", CFGF,
  "                .remove_useless_symbols() \\\n                .eliminate_unit_productions() \\\n                .remove_useless_symbols()",
  "                .remove_useless_symbols()", "slow-path-order")
b("c09-pipeline-epsilon-last", "C09", CFGF,
  "            new_cfg = self.remove_useless_symbols() \\\n                .remove_epsilon() \\\n                .remove_useless_symbols() \\\n                .eliminate_unit_productions() \\\n                .remove_useless_symbols()",
  "            new_cfg = self.remove_useless_symbols() \\\n                .eliminate_unit_productions() \\\n                .remove_useless_symbols() \\\n                .remove_epsilon() \\\n                .remove_useless_symbols()",
  "slow-path-order")
b("c09-decompose-before-lift", "C09", CFGF,
  "        new_productions = self._get_productions_with_only_single_terminals()\n        new_productions = self._decompose_productions(new_productions)",
  "        new_productions = self._get_productions_with_only_single_terminals()\n        new_productions = self._decompose_productions(list(self._productions))",
  "fast-path-lift-before-binarise")
b("c09-cache-wrong-grammar", "C09", CFGF,
  "            cfg = new_cfg.to_normal_form()\n            self._normal_form = cfg\n            return cfg",
  "            cfg = new_cfg.to_normal_form()\n            self._normal_form = new_cfg\n            return cfg",
  "cache-stores-returned-value")
b("c09-unit-base-keeps-units", "C09", CFGF,
  "        productions = [x\n                       for x in self._productions\n                       if len(x.body) != 1\n                       or not isinstance(x.body[0], Variable)]",
  "        productions = [x\n                       for x in self._productions]", "base-set-excludes-unit-productions")
b("c09-epsilon-keeps-empty", "C09", "pyformlang/cfg/utils_cfg.py",
  "           for prod_l in next_prod_l\n           if prod_l]", "           for prod_l in next_prod_l]", "drops-empty-bodies")
b("c09-cnf-var-bare", "C09", CFGF,
  "                idx, var = self._get_next_free_variable(idx, \"C#CNF#\")",
  "                idx += 1\n                var = Variable(\"C#CNF#\" + str(idx))", "unproven-name")
p("c09-p-pipeline-locals", "C09", CFGF,
  "            new_cfg = self.remove_useless_symbols() \\\n                .remove_epsilon() \\\n                .remove_useless_symbols() \\\n                .eliminate_unit_productions() \\\n                .remove_useless_symbols()",
  "            step1 = self.remove_useless_symbols()\n            step2 = step1.remove_epsilon()\n            step3 = step2.remove_useless_symbols()\n            step4 = step3.eliminate_unit_productions()\n            new_cfg = step4.remove_useless_symbols()")

for _prop in ("C08", "C09"):
    b("%s-counter-distinct-symbols" % _prop.lower(), _prop, "pyformlang/cfg/cfg.py",
      "            temp.append(len(body))\n", "            temp.append(len(set(body)))\n", "counter-matches-registrations")
    p("%s-p-counter-both-distinct" % _prop.lower(), _prop, "pyformlang/cfg/cfg.py",
      "            temp.append(len(body))\n            index_impact = len(temp) - 1\n            for symbol in body:\n",
      "            temp.append(len(set(body)))\n            index_impact = len(temp) - 1\n            for symbol in set(body):\n")
    p("%s-p-counter-alias" % _prop.lower(), _prop, "pyformlang/cfg/cfg.py",
      "            temp.append(len(body))\n            index_impact = len(temp) - 1\n            for symbol in body:\n",
      "            symbols = body\n            temp.append(len(symbols))\n            index_impact = len(temp) - 1\n            for symbol in production.body:\n")
b("c09-counter-first-production-only", "C09", "pyformlang/cfg/cfg.py",
  "                self._remaining_lists[symbol_impact][index_impact] -= 1\n                if self._remaining_lists[symbol_impact][index_impact] == 0:\n                    g_symbols.add(symbol_impact)",
  "                self._remaining_lists[symbol_impact][0] -= 1\n                if self._remaining_lists[symbol_impact][0] == 0:\n                    g_symbols.add(symbol_impact)",
  "counter-cell-per-production")
p("c09-p-counter-cell-alias", "C09", "pyformlang/cfg/cfg.py",
  "                self._remaining_lists[symbol_impact][index_impact] -= 1\n                if self._remaining_lists[symbol_impact][index_impact] == 0:\n                    g_symbols.add(symbol_impact)",
  "                cells = self._remaining_lists[symbol_impact]\n                pos = index_impact\n                cells[pos] -= 1\n                if cells[pos] == 0:\n                    g_symbols.add(symbol_impact)")
b("c08-epsilon-counter-by-head", "C08", "pyformlang/cfg/cfg.py",
  "                remaining_lists[symbol_impact][index_impact] -= 1\n                if remaining_lists[symbol_impact][index_impact] == 0:\n                    if symbol_impact == self._start_symbol:",
  "                remaining_lists[symbol_impact][-1] -= 1\n                if remaining_lists[symbol_impact][-1] == 0:\n                    if symbol_impact == self._start_symbol:",
  "counter-cell-per-production")
# ----------------------------------------------------------------------------- C12
b("c12-empty-ignores-start", "C12", CFGF,
  "        return self._start_symbol not in self.get_generating_symbols()",
  "        return not self.get_generating_symbols()", "is_empty-depends-on-start-symbol")
b("c12-empty-uses-reachable", "C12", CFGF,
  "        return self._start_symbol not in self.get_generating_symbols()",
  "        return self._start_symbol not in self.get_reachable_symbols()", "is_empty-depends-on-generating")
b("c12-bool-not-delegating", "C12", CFGF,
  "        return not self.is_empty()", "        return bool(self._productions)", "bool-delegates-to-is_empty")
b("c12-generating-runs-nullable-mode", "C12", CFGF,
  "            self._generating_symbols = self._get_generating_or_nullable(False)",
  "            self._generating_symbols = self._get_generating_or_nullable(True)", "mode-of-shared-fixpoint:get_generating_symbols")
b("c12-nullable-default-mode", "C12", CFGF,
  "            self._nullable_symbols = self._get_generating_or_nullable(True)",
  "            self._nullable_symbols = self._get_generating_or_nullable()", "mode-of-shared-fixpoint:get_nullable_symbols")
b("c12-nullable-returns-generating-cache", "C12", CFGF,
  "            self._nullable_symbols = self._get_generating_or_nullable(True)\n        return self._nullable_symbols",
  "            self._nullable_symbols = self._get_generating_or_nullable(True)\n        return self._generating_symbols",
  "cache-field-is-its-own:get_nullable_symbols")
b("c12-nullable-stores-in-generating-cache", "C12", CFGF,
  "        if self._nullable_symbols is None:\n            self._nullable_symbols = self._get_generating_or_nullable(True)\n        return self._nullable_symbols",
  "        if self._nullable_symbols is None:\n            self._generating_symbols = self._nullable_symbols = self._get_generating_or_nullable(True)\n        return self._nullable_symbols",
  "cache-field-is-its-own:get_nullable_symbols")
b("c12-terminals-seed-both-modes", "C12", CFGF,
  "        if not nullable:\n            for terminal in self._terminals:\n                if terminal not in g_symbols:\n                    g_symbols.add(terminal)\n                    to_process.append(terminal)\n",
  "        for terminal in self._terminals:\n            if terminal not in g_symbols:\n                g_symbols.add(terminal)\n                to_process.append(terminal)\n",
  "terminals-do-not-seed-nullable")
b("c12-terminals-never-seed", "C12", CFGF,
  "        if not nullable:\n            for terminal in self._terminals:\n                if terminal not in g_symbols:\n                    g_symbols.add(terminal)\n                    to_process.append(terminal)\n",
  "", "terminals-seed-generating")
b("c12-empty-bodies-not-seeded", "C12", CFGF,
  "        for symbol in self._added_impacts:\n            if symbol not in g_symbols:\n                g_symbols.add(symbol)\n                to_process.append(symbol)\n\n        if not nullable:",
  "        if not nullable:", "generating-fixpoint-depends-on-heads-of-empty-bodies")
b("c12-fixpoint-no-mark", "C12", CFGF,
  "                if self._remaining_lists[symbol_impact][index_impact] == 0:\n                    g_symbols.add(symbol_impact)\n                    to_process.append(symbol_impact)\n        # Fix",
  "                if self._remaining_lists[symbol_impact][index_impact] == 0:\n                    to_process.append(symbol_impact)\n        # Fix",
  "fixpoint-is-a-closure-worklist")
b("c12-reachable-first-symbol-only", "C12", CFGF,
  "            for symbol in production.body:\n                if not isinstance(symbol, Epsilon):\n                    temp.append(symbol)\n",
  "            if production.body and not isinstance(production.body[0], Epsilon):\n                temp.append(production.body[0])\n",
  "whole-body-followed")
b("c12-reachable-ignores-head", "C12", CFGF,
  "            temp = reachable_transition_d.setdefault(production.head, [])\n            for symbol in production.body:",
  "            temp = reachable_transition_d.setdefault(self._start_symbol, [])\n            for symbol in production.body:",
  "successors-keyed-by-head")
b("c12-reachable-no-visited-test", "C12", CFGF,
  "                if next_symbol not in r_symbols:\n                    r_symbols.add(next_symbol)\n                    to_process.append(next_symbol)\n        return r_symbols",
  "                r_symbols.add(next_symbol)\n                to_process.append(next_symbol)\n        return r_symbols",
  "reachability-is-a-closure-worklist")
b("c12-finite-on-raw-productions", "C12", CFGF,
  "        for production in normal.productions:\n            body = production.body\n            if len(body) == 2:\n                di_graph",
  "        for production in self.productions:\n            body = production.body\n            if len(body) == 2:\n                di_graph",
  "graph-built-from-normal-form")
b("c12-finite-first-symbol-twice", "C12", CFGF,
  "                di_graph.add_edge(production.head, body[1])\n", "                di_graph.add_edge(production.head, body[0])\n",
  "edges-to-both-body-symbols")
b("c12-finite-one-edge", "C12", CFGF,
  "                di_graph.add_edge(production.head, body[0])\n                di_graph.add_edge(production.head, body[1])\n",
  "                di_graph.add_edge(production.head, body[0])\n", "edges-to-both-body-symbols")
b("c12-finite-tests-other-graph", "C12", CFGF,
  "            nx.find_cycle(di_graph, orientation=\"original\")", "            nx.find_cycle(nx.DiGraph(), orientation=\"original\")",
  "graph-reaches-the-cycle-test")
b("c12-words-bound-zero-first", "C12", CFGF,
  "        nullables = self.get_nullable_symbols()\n        if self.start_symbol in nullables:\n            yield []\n        if max_length == 0:\n            return\n",
  "        if max_length == 0:\n            return\n        nullables = self.get_nullable_symbols()\n        if self.start_symbol in nullables:\n            yield []\n",
  "empty-word-independent-of-bound")
b("c12-words-empty-unconditional", "C12", CFGF,
  "        if self.start_symbol in nullables:\n            yield []\n", "        if nullables:\n            yield []\n",
  "empty-word-under-start-in-nullable")
b("c12-words-no-bound-zero-return", "C12", CFGF,
  "            yield []\n        if max_length == 0:\n            return\n", "            yield []\n", "no-word-for-bound-zero")
b("c12-words-any-head", "C12", CFGF,
  "                                gen_d[production.head][-1].append(new_word)\n                                if production.head == cfg.start_symbol:\n                                    yield list(new_word)",
  "                                gen_d[production.head][-1].append(new_word)\n                                yield list(new_word)",
  "words-only-for-the-start-symbol")
b("c12-words-no-duplicate-test", "C12", CFGF,
  "                            if new_word not in gen_d[production.head][-1]:\n                                was_modified = True\n                                gen_d[production.head][-1].append(new_word)\n                                if production.head == cfg.start_symbol:\n                                    yield list(new_word)",
  "                            if True:\n                                was_modified = True\n                                gen_d[production.head][-1].append(new_word)\n                                if production.head == cfg.start_symbol:\n                                    yield list(new_word)",
  "concatenated-words-duplicate-guarded")
b("c12-words-loop-ignores-bound", "C12", CFGF,
  "        while current_length <= max_length or max_length == -1:", "        while True:",
  "concatenated-words-under-the-length-bound")
b("c12-words-on-raw-productions", "C12", CFGF,
  "        cfg = self.to_normal_form()\n        productions = cfg.productions\n        gen_d = {}",
  "        cfg = self.to_normal_form()\n        productions = self.productions\n        gen_d = {}",
  "enumeration-runs-on-the-normal-form")
p("c12-p-reachable-extend", "C12", CFGF,
  "            for symbol in production.body:\n                if not isinstance(symbol, Epsilon):\n                    temp.append(symbol)\n",
  "            temp.extend(sym for sym in production.body if not isinstance(sym, Epsilon))\n")
p("c12-p-finite-loop-over-body", "C12", CFGF,
  "                di_graph.add_edge(production.head, body[0])\n                di_graph.add_edge(production.head, body[1])\n",
  "                for target in body:\n                    di_graph.add_edge(production.head, target)\n")
p("c12-p-finite-edges-from", "C12", CFGF,
  "                di_graph.add_edge(production.head, body[0])\n                di_graph.add_edge(production.head, body[1])\n",
  "                di_graph.add_edges_from([(production.head, body[0]), (production.head, body[-1])])\n")
p("c12-p-empty-named", "C12", CFGF,
  "        return self._start_symbol not in self.get_generating_symbols()",
  "        productive = self.get_generating_symbols()\n        start_is_productive = self._start_symbol in productive\n        return not start_is_productive")
p("c12-p-words-flag", "C12", CFGF,
  "                            if new_word not in gen_d[production.head][-1]:\n                                was_modified = True",
  "                            unseen = new_word not in gen_d[production.head][-1]\n                            if unseen:\n                                was_modified = True")
p("c12-p-words-bound-positive", "C12", CFGF,
  "        if max_length == 0:\n            return\n        cfg = self.to_normal_form()",
  "        no_room = max_length == 0\n        if no_room:\n            return\n        cfg = self.to_normal_form()")
p("c12-p-generating-kw", "C12", CFGF,
  "            self._generating_symbols = self._get_generating_or_nullable(False)",
  "            self._generating_symbols = self._get_generating_or_nullable(nullable=False)")
# ----------------------------------------------------------------------------- C10
b("c10-substitute-keeps-head", "C10", CFGF,
  "                productions.append(\n                    Production(new_variables_d_local[production.head],\n                               body))",
  "                productions.append(\n                    Production(production.head,\n                               body))", "heads-renamed")
b("c10-substitute-no-body-rename", "C10", CFGF,
  "                for cfgobj in production.body:\n                    if cfgobj in new_variables_d_local:\n                        body.append(new_variables_d_local[cfgobj])\n                    else:\n                        body.append(cfgobj)",
  "                for cfgobj in production.body:\n                    body.append(cfgobj)", "unrenamed-only-if-not-a-variable")
b("c10-substitute-counter-reset", "C10", CFGF,
  "        for ter, cfg in substitution.items():\n            new_variables_d_local = {}",
  "        for ter, cfg in substitution.items():\n            idx = 0\n            new_variables_d_local = {}",
  "counter-shared-across-operands")
b("c10-union-drops-other", "C10", CFGF,
  "        return cfg_temp.substitute({temp_0: self,\n                                    temp_1: other})\n\n    def __or__",
  "        return cfg_temp.substitute({temp_0: self,\n                                    temp_1: self})\n\n    def __or__",
  "operands-substituted")
b("c10-concat-swapped", "C10", CFGF,
  "        return cfg_temp.substitute({temp_0: self,\n                                    temp_1: other})\n\n    def __add__",
  "        return cfg_temp.substitute({temp_0: other,\n                                    temp_1: self})\n\n    def __add__",
  "concatenation-order")
b("c10-reverse-not-reversed", "C10", CFGF,
  "                                          production.body[::-1]))", "                                          production.body[::1]))",
  "bodies-reversed")
b("c10-or-is-concat", "C10", CFGF,
  "        return self.union(other)\n\n    def concatenate", "        return self.concatenate(other)\n\n    def concatenate",
  "delegates-to:union")
b("c10-template-returned-raw", "C10", CFGF,
  "        return cfg_temp.substitute({temp_1: self})\n\n    def get_positive_closure",
  "        cfg_temp.substitute({temp_1: self})\n        return cfg_temp\n\n    def get_positive_closure", "template-escapes")
p("c10-p-substitute-rename", "C10", CFGF,
  "        for ter, cfg in substitution.items():\n            new_variables_d_local = {}\n            for variable in cfg.variables:",
  "        for ter, cfg in substitution.items():\n            new_variables_d_local = dict()\n            for variable in cfg.variables:")

# ----------------------------------------------------------------------------- C11
PDAF = "pyformlang/pda/pda.py"
b("c11-empty-only-self", "C11", CFGF,
  "        generate_empty = self.contains([]) and other.accepts([])", "        generate_empty = self.contains([])",
  "start->epsilon-iff-both")
b("c11-no-terminal-rules", "C11", CFGF,
  "            else:\n                new_productions += self._intersection_when_terminal(\n                    other,\n                    production,\n                    cv_converter,\n                    states)\n",
  "", "both-normal-form-shapes")
b("c11-start-rules-all-states", "C11", CFGF,
  "        for final_state in other.final_states:\n            new_body = [", "        for final_state in other.states:\n            new_body = [",
  "start-rules")
b("c11-notimplemented-to-typeerror", "C11", CFGF,
  "            other = other.to_deterministic()\n        else:\n            raise NotImplementedError\n        if other.is_empty():",
  "            other = other.to_deterministic()\n        else:\n            raise TypeError\n        if other.is_empty():",
  "dispatcher-raises-only-NotImplementedError")
b("c11-conditional-determinise", "C11", CFGF,
  "            other = other.to_deterministic()\n        else:\n            raise NotImplementedError\n        if other.is_empty():",
  "            if not other.is_deterministic():\n                other = other.to_deterministic()\n        else:\n            raise NotImplementedError\n        if other.is_empty():",
  "successor-index")
b("c11-pda-final-only-pda", "C11", PDAF,
  "            if (state_in in self._final_states and state_dfa in\n                    final_state_other):",
  "            if (state_in in self._final_states):", "product-final-iff-both")
b("c11-pda-eps-moves-automaton", "C11", PDAF,
  "                if symbol == Epsilon():\n                    next_states_dfa = [state_dfa]\n                else:\n                    next_states_dfa = other(state_dfa, symbol_dfa)",
  "                next_states_dfa = other(state_dfa, symbol_dfa)", "epsilon-keeps-automaton-state")
b("c11-pda-index-set", "C11", PDAF,
  "                        for next_state_dfa in next_states_dfa:\n                            pda.add_transition(",
  "                        for next_state_dfa in [other(state_dfa, symbol_dfa)[0]]:\n                            pda.add_transition(",
  "successor-index")
p("c11-p-determinise-local", "C11", CFGF,
  "            other = other.to_deterministic()\n        else:\n            raise NotImplementedError\n        if other.is_empty():",
  "            dfa = other.to_deterministic()\n            other = dfa\n        else:\n            raise NotImplementedError\n        if other.is_empty():")

# ----------------------------------------------------------------------------- C13
b("c13-final-state-bare-name", "C13", PDAF,
  "        new_start = get_next_free(\"#STARTTOFINAL#\", State, self._states)", "        new_start = State(\"#STARTTOFINAL#\")",
  "unproven-name")
b("c13-wrong-collection", "C13", PDAF,
  "        new_stack_symbol = get_next_free(\"#BOTTOMTOFINAL#\",\n                                         StackSymbol,\n                                         self._stack_alphabet)",
  "        new_stack_symbol = get_next_free(\"#BOTTOMTOFINAL#\",\n                                         StackSymbol,\n                                         self._states)",
  "fresh-wrong-collection")
b("c13-empty-stack-old-alphabet", "C13", PDAF,
  "        for state in self._final_states:\n            for stack_symbol in new_stack_alphabet:",
  "        for state in self._final_states:\n            for stack_symbol in self._stack_alphabet:",
  "final-states-pop-every-symbol-incl-marker")
b("c13-empty-stack-end-old-alphabet", "C13", PDAF,
  "        for stack_symbol in new_stack_alphabet:\n            new_tf.add_transition(new_end, Epsilon(), stack_symbol,",
  "        for stack_symbol in self._stack_alphabet:\n            new_tf.add_transition(new_end, Epsilon(), stack_symbol,",
  "end-state-pops-every-symbol-incl-marker")
b("c13-final-state-only-finals", "C13", PDAF,
  "        for state in self._states:\n            new_tf.add_transition(state, Epsilon(), new_stack_symbol,\n                                  new_end, [])",
  "        for state in self._final_states:\n            new_tf.add_transition(state, Epsilon(), new_stack_symbol,\n                                  new_end, [])",
  "pop-to-end-for-every-state")
b("c13-tocfg-merged-phases", "C13", PDAF,
  "                    state)\n        for transition in self._transition_function:\n            for state in states:\n                self._process_transition_and_state_to_cfg(productions,",
  "                    state)\n                self._process_transition_and_state_to_cfg(productions,",
  "set_valid-before-is_valid_and_get")
b("c13-topda-no-terminal-moves", "C13", CFGF,
  "        for terminal in self._terminals:\n            new_pda.add_transition(state,\n                                   pda_object_creator.get_symbol_from(\n                                       terminal),\n                                   pda_object_creator.get_stack_symbol_from(\n                                       terminal),\n                                   state, [])\n",
  "", "consuming-move-per-terminal")
b("c13-final-state-shares-tf", "C13", PDAF,
  "        new_tf = self._transition_function.copy()\n        new_tf.add_transition(new_start, Epsilon(), new_stack_symbol,\n                              self._start_state, [self._start_stack_symbol,\n                                                  new_stack_symbol])\n        for state in self._states:",
  "        new_tf = self._transition_function\n        new_tf.add_transition(new_start, Epsilon(), new_stack_symbol,\n                              self._start_state, [self._start_stack_symbol,\n                                                  new_stack_symbol])\n        for state in self._states:",
  "wrappers-on-copy")
p("c13-p-rename-marker", "C13", PDAF,
  "        new_tf = self._transition_function.copy()\n        new_tf.add_transition(new_start, Epsilon(), new_stack_symbol,\n                              self._start_state, [self._start_stack_symbol,\n                                                  new_stack_symbol])\n        for state in self._states:",
  "        new_tf = self._transition_function.copy()\n        pushed = [self._start_stack_symbol, new_stack_symbol]\n        new_tf.add_transition(new_start, Epsilon(), new_stack_symbol,\n                              self._start_state, pushed)\n        for state in self._states:")

# ----------------------------------------------------------------------------- C05
RXF = "pyformlang/regular_expression/regex.py"
RDF = "pyformlang/regular_expression/regex_reader.py"
ROF = "pyformlang/regular_expression/regex_objects.py"
b("c05-star-no-skip", "C05", RXF,
  "        self._add_epsilon_transition_in_enfa_between(s_from, s_to)\n        self._add_epsilon_transition_in_enfa_between(s_from, state_first)",
  "        self._add_epsilon_transition_in_enfa_between(s_from, state_first)", "thompson-paths:star")
b("c05-star-no-loop", "C05", RXF,
  "        self._add_epsilon_transition_in_enfa_between(state_second, state_first)\n", "", "thompson-paths:star")
b("c05-concat-sons-swapped", "C05", RXF,
  "        self._process_to_enfa_son(s_from, state0, 0)\n        self._process_to_enfa_son(state1, s_to, 1)",
  "        self._process_to_enfa_son(s_from, state0, 1)\n        self._process_to_enfa_son(state1, s_to, 0)",
  "thompson-paths:concatenation")
b("c05-union-one-branch", "C05", RXF,
  "        son_number = 1\n        self._create_union_branch_in_enfa(s_from, s_to, son_number)", "        son_number = 1",
  "thompson-paths:union")
b("c05-union-builds-concat", "C05", RXF,
  "        regex = Regex(\"\")\n        regex.head = pyformlang.regular_expression.regex_objects.Union()\n        regex.sons = [self, other]",
  "        regex = Regex(\"\")\n        regex.head = pyformlang.regular_expression.regex_objects.Concatenation()\n        regex.sons = [self, other]",
  "head=Union")
b("c05-concatenate-swapped", "C05", RXF,
  "            pyformlang.regular_expression.regex_objects.Concatenation()\n        regex.sons = [self, other]",
  "            pyformlang.regular_expression.regex_objects.Concatenation()\n        regex.sons = [other, self]",
  "sons=[self,other]")
b("c05-reader-raises-valueerror", "C05", RDF,
  "        if not isinstance(first_symbol, Symbol):\n            raise MisformedRegexError(MISFORMED_MESSAGE, self._regex)",
  "        if not isinstance(first_symbol, Symbol):\n            raise ValueError(MISFORMED_MESSAGE)", "raise:ValueError")
b("c05-reader-unguarded-next", "C05", RDF,
  "        if self._end_current_group < len(self._components):\n            self._current_node = to_node(\n                self._components[self._end_current_group])",
  "        if True:\n            self._current_node = to_node(\n                self._components[self._end_current_group])",
  "token-index-unguarded")
b("c05-plus-not-union", "C05", ROF,
  "UNION_SYMBOLS = [\"|\", \"+\"]", "UNION_SYMBOLS = [\"|\"]", "documented-spellings:UNION_SYMBOLS")
b("c05-union-prints-plus-plus", "C05", ROF,
  "        return \"(\" + \"|\".join(sons_repr) + \")\"", "        return \"(\" + \"/\".join(sons_repr) + \")\"",
  "printer-spelling:Union")
b("c05-leaf-epsilon-as-symbol", "C05", RXF,
  "        if isinstance(self.head,\n                      pyformlang.regular_expression.regex_objects.Epsilon):\n            self._add_epsilon_transition_in_enfa_between(s_from, s_to)\n        elif not isinstance(",
  "        if isinstance(self.head,\n                      pyformlang.regular_expression.regex_objects.KleeneStar):\n            self._add_epsilon_transition_in_enfa_between(s_from, s_to)\n        elif not isinstance(",
  "leaf-cases")
p("c05-p-star-order", "C05", RXF,
  "        self._add_epsilon_transition_in_enfa_between(state_second, state_first)\n        self._add_epsilon_transition_in_enfa_between(s_from, s_to)",
  "        self._add_epsilon_transition_in_enfa_between(s_from, s_to)\n        self._add_epsilon_transition_in_enfa_between(state_second, state_first)")
V.append(dict(id="c05-x-union-loop", prop="C05", file=RXF, kind="unfollowable",
  old="        son_number = 0\n        self._create_union_branch_in_enfa(s_from, s_to, son_number)\n        son_number = 1\n        self._create_union_branch_in_enfa(s_from, s_to, son_number)",
  new="        for son_number in (0, 1):\n            self._create_union_branch_in_enfa(s_from, s_to, son_number)"))
p("c05-p-union-locals", "C05", RXF,
  "        son_number = 0\n        self._create_union_branch_in_enfa(s_from, s_to, son_number)\n        son_number = 1\n        self._create_union_branch_in_enfa(s_from, s_to, son_number)",
  "        self._create_union_branch_in_enfa(s_from, s_to, 0)\n        self._create_union_branch_in_enfa(s_from, s_to, 1)")
_unused = ("c05-p-union-inline", "C05", RXF,
  "        son_number = 0\n        self._create_union_branch_in_enfa(s_from, s_to, son_number)\n        son_number = 1\n        self._create_union_branch_in_enfa(s_from, s_to, son_number)",
  "        for son_number in (0, 1):\n            self._create_union_branch_in_enfa(s_from, s_to, son_number)")

# ----------------------------------------------------------------------------- C07
PYF = "pyformlang/regular_expression/python_regex.py"
b("c07-no-compile-gate", "C07", PYF,
  "        else:\n            re.compile(python_regex)  # Check if it is valid\n", "", "re.compile-gate")
b("c07-gate-swallowed", "C07", PYF,
  "            re.compile(python_regex)  # Check if it is valid\n",
  "            try:\n                re.compile(python_regex)\n            except re.error:\n                pass\n", "re.compile-gate")
b("c07-plus-not-escaped", "C07", PYF, "    \"+\": \"\\\\+\",\n", "", "escape-covers:'+'")
b("c07-digit-shortcut", "C07", PYF, "    r\"\\d\": \"[0-9]\",", "    r\"\\d\": \"[1-9]\",", "shortcuts")
p("c07-p-gate-first", "C07", PYF,
  "        if not isinstance(python_regex, str):\n            python_regex = python_regex.pattern\n        else:\n            re.compile(python_regex)  # Check if it is valid\n",
  "        if isinstance(python_regex, str):\n            re.compile(python_regex)\n        else:\n            python_regex = python_regex.pattern\n")

# ----------------------------------------------------------------------------- C14
LLF = "pyformlang/cfg/llone_parser.py"
b("c14-raise-valueerror", "C14", LLF,
  "                else:\n                    raise NotParsableException\n", "                else:\n                    raise ValueError\n",
  "explicit-raises")
b("c14-table-subscript", "C14", LLF,
  "                rule_applied = list(parsing_table.get(current.value, {})\n                                    .get(word[-1], []))",
  "                rule_applied = list(parsing_table[current.value]\n                                    .get(word[-1], []))",
  "table-lookups-use-get")
b("c14-cell-overwrite", "C14", LLF,
  "                if first not in llone_parsing_table[production.head]:\n                    llone_parsing_table[production.head][first] = []\n                llone_parsing_table[production.head][first].append(\n                    production\n                )\n        return llone_parsing_table",
  "                llone_parsing_table[production.head][first] = [production]\n        return llone_parsing_table",
  "cells-accumulate")
b("c14-first-always-requeue", "C14", LLF,
  "                if len(first_set[production.head]) != length_before:\n                    for triggered in triggers.get(production.head, []):\n                        to_process.append(triggered)",
  "                for triggered in triggers.get(production.head, []):\n                    pass", "requeue-on-growth")
b("c14-parsable-ignores-cells", "C14", LLF,
  "                if len(terminal) > 1:\n                    return False\n", "                pass\n", "verdict-reads-every-cell")
p("c14-p-rename", "C14", LLF,
  "        parsing_table = self.get_llone_parsing_table()\n        parse_tree = ParseTree(self._cfg.start_symbol)",
  "        parsing_table = self.get_llone_parsing_table()\n        root_symbol = self._cfg.start_symbol\n        parse_tree = ParseTree(root_symbol)")

# ----------------------------------------------------------------------------- C15
RDF2 = "pyformlang/cfg/recursive_decent_parser.py"
b("c15-rd-commit-early", "C15", RDF2,
  "                if self._get_parse_tree_sub(word, new_expansion, left):\n                    to_expand[1].sons = [x[1] for x in replacement]\n                    return True",
  "                to_expand[1].sons = [x[1] for x in replacement]\n                if self._get_parse_tree_sub(word, new_expansion, left):\n                    return True",
  "commit-on-success")
b("c15-cyk-one-pointer", "C15", CYKF,
  "                        CYKNode(var_a, var_b, var_c))", "                        CYKNode(var_a, var_b))", "both-back-pointers")
b("c15-cyk-root-any", "C15", CYKF,
  "            if x == self._cnf.start_symbol][0]", "            ][0]", "root=start-symbol")
b("c15-cnf-raises-valueerror", "C15", CFGF,
  "        if not word and not self.generate_epsilon():\n            raise DerivationDoesNotExist", "        if not word and not self.generate_epsilon():\n            raise ValueError",
  "refuses-with:DerivationDoesNotExist")
b("c15-cyknode-right-first", "C15", CYKF,
  "        if left_son is not None:\n            self.sons.append(left_son)\n        if right_son is not None:\n            self.sons.append(right_son)",
  "        if right_son is not None:\n            self.sons.append(right_son)\n        if left_son is not None:\n            self.sons.append(left_son)",
  "children-left-then-right")

# ----------------------------------------------------------------------------- C16
FSTF = "pyformlang/fst/fst.py"
b("c16-star-no-loop-back", "C16", FSTF,
  "        for final_state in self.final_states:\n            for start_state in self.start_states:\n                fst_star.add_transition(\n                    state_renaming.get_name(final_state, 0),\n                    \"epsilon\",\n                    state_renaming.get_name(start_state, 0),\n                    []\n                )\n        for final_state in self.start_states:",
  "        for final_state in self.start_states:", "star-loop-back-edge")
b("c16-concat-keeps-left-finals", "C16", FSTF,
  "        self._add_start_states_to(fst_concatenate, state_renaming, 0)\n",
  "        self._add_extremity_states_to(fst_concatenate, state_renaming, 0)\n", "concat-final-only-right")
b("c16-concat-bridge-outputs", "C16", FSTF,
  "                    state_renaming.get_name(start_state, 1),\n                    []\n                )\n        return fst_concatenate",
  "                    state_renaming.get_name(start_state, 1),\n                    [\"epsilon\"]\n                )\n        return fst_concatenate",
  "concat-bridge")
b("c16-union-no-other-edges", "C16", FSTF,
  "        other_fst._copy_into(union_fst, state_renaming, 1)", "        other_fst._add_extremity_states_to(union_fst, state_renaming, 1)",
  "union-edges-of-both")
b("c16-translate-yield-nonfinal", "C16", FSTF,
  "            if len(remaining) == 0 and current_state in self._final_states:", "            if len(remaining) == 0:",
  "yield-iff-consumed-and-final")
b("c16-translate-no-mark", "C16", FSTF,
  "            if (remaining, generated) in seen_by_state[current_state]:\n                continue\n            seen_by_state[current_state].append((remaining, generated))\n",
  "", "mark-at-pop")
b("c16-translate-no-eps-moves", "C16", FSTF,
  "                for next_state, output_string in self._delta.get(\n                        (current_state, \"epsilon\"), []):\n                    to_process.append((remaining,\n                                       generated + output_string,\n                                       next_state))",
  "                pass", "epsilon-move")
b("c16-tofst-swapped-endpoints", "C16", FA + "finite_automaton.py",
  "            fst.add_transition(s_from.value,\n                               symb_by.value,\n                               s_to.value,",
  "            fst.add_transition(s_to.value,\n                               symb_by.value,\n                               s_from.value,", "to_fst-identity")
p("c16-p-union-locals", "C16", FSTF,
  "        # pylint: disable=protected-access\n        self._copy_into(union_fst, state_renaming, 0)\n        other_fst._copy_into(union_fst, state_renaming, 1)",
  "        for idx, operand in enumerate((self, other_fst)):\n            operand._copy_into(union_fst, state_renaming, idx)")

# ----------------------------------------------------------------------------- C17
IGF = "pyformlang/indexed_grammar/indexed_grammar.py"
RLF = "pyformlang/indexed_grammar/rules.py"
ROFI = "pyformlang/indexed_grammar/rule_ordering.py"
b("c17-optim-dropped", "C17", IGF,
  "        rules = Rules(l_rules, self.rules.optim)\n        return IndexedGrammar(rules, self.start_variable)", "        rules = Rules(l_rules)\n        return IndexedGrammar(rules, self.start_variable)",
  "optim-forwarded")
b("c17-start-variable-dropped", "C17", IGF,
  "        return IndexedGrammar(rules, self.start_variable)", "        return IndexedGrammar(rules)", "start_variable-forwarded")
b("c17-optim-8-missing", "C17", RLF,
  "        elif optim == 8:\n            self._rules = rule_ordering.order_random()\n", "", "optim-1..8-handled")
b("c17-order-drops-rules", "C17", ROFI,
  "        new_order = sorted(self.rules, key=lambda x:\n                           self._get_len_out(di_graph, x))",
  "        new_order = [x for x in self.rules if self._get_len_out(di_graph, x)]", "returns-permutation")
b("c17-loop-ignores-production-changes", "C17", IGF,
  "                    if prod_res[1]:\n                        return False\n                    was_modified |= prod_res[0]",
  "                    if prod_res[1]:\n                        return False", "continues-while-either-changed")
b("c17-loop-skips-duplication", "C17", IGF,
  "                if rule.is_duplication():\n                    dup_res = self._duplication_processing(rule)\n                    was_modified |= dup_res[0]\n                    if dup_res[1]:\n                        return False\n                elif rule.is_production():",
  "                if rule.is_production():", "dispatch-on-both-rule-kinds")
b("c17-intersection-ignores-self", "C17", IGF,
  "            fst = other.to_fst()\n            return fst.intersection(self)", "            fst = other.to_fst()\n            return fst.intersection(IndexedGrammar(self.rules))",
  "grammar-x-transducer-of-automaton")
p("c17-p-order-reverse-builtin", "C17", ROFI,
  "        if reverse:\n            new_order.reverse()\n        return new_order\n\n    def order_random",
  "        if reverse:\n            new_order = new_order[::-1]\n        return new_order\n\n    def order_random")

IGF = "pyformlang/indexed_grammar/indexed_grammar.py"
b("c17-edge-case-silent-mark", "C17", IGF,
  "            if frozenset() not in self.marked[rule.left_term]:\n                was_modified = True\n                self.marked[rule.left_term].add(frozenset())",
  "            self.marked[rule.left_term].add(frozenset())", "new-mark-raises-the-change-flag")
b("c17-addrec-silent-mark", "C17", IGF,
  "                marked_left.add(new_temp)\n                res = True\n", "                marked_left.add(new_temp)\n",
  "new-mark-raises-the-change-flag")
b("c17-deferred-mark-silent", "C17", IGF,
  "                if temp not in self.marked[rule.left_term]:\n                    was_modified = True\n                    if rule.left_term == rule.right_terms[0]:",
  "                if temp not in self.marked[rule.left_term]:\n                    if rule.left_term == rule.right_terms[0]:",
  "new-mark-raises-the-change-flag")
p("c17-p-flag-after-mark", "C17", IGF,
  "                was_modified = True\n                self.marked[rule.left_term].add(frozenset())",
  "                self.marked[rule.left_term].add(frozenset())\n                was_modified = True")
p("c17-p-flag-renamed-or", "C17", IGF,
  "                marked_left.add(new_temp)\n                res = True\n", "                marked_left.add(new_temp)\n                res |= True\n")
b("c17-dup-counter-distinct-terms", "C17", IGF,
  "                if right0 in duplication_pointer:\n                    duplication_pointer[right0].append(temp)\n                else:\n                    duplication_pointer[right0] = [temp]\n                if right1 in duplication_pointer:\n                    duplication_pointer[right1].append(temp)\n                else:\n                    duplication_pointer[right1] = [temp]\n",
  "                for right in {right0, right1}:\n                    duplication_pointer.setdefault(right, []).append(temp)\n",
  "duplication-counter-matches-registrations")
p("c17-p-dup-counter-loop-occurrences", "C17", IGF,
  "                if right0 in duplication_pointer:\n                    duplication_pointer[right0].append(temp)\n                else:\n                    duplication_pointer[right0] = [temp]\n                if right1 in duplication_pointer:\n                    duplication_pointer[right1].append(temp)\n                else:\n                    duplication_pointer[right1] = [temp]\n",
  "                for right in (right0, right1):\n                    duplication_pointer.setdefault(right, []).append(temp)\n")
p("c17-p-dup-counter-setdefault", "C17", IGF,
  "                if right0 in duplication_pointer:\n                    duplication_pointer[right0].append(temp)\n                else:\n                    duplication_pointer[right0] = [temp]\n",
  "                duplication_pointer.setdefault(right0, []).append(temp)\n")
# ----------------------------------------------------------------------------- C18
FCF = "pyformlang/fcfg/fcfg.py"
FSF = "pyformlang/fcfg/feature_structure.py"
b("c18-unify-no-copy-right", "C18", FCF,
  "                copy_right = next_state.feature_stucture.copy()", "                copy_right = next_state.feature_stucture",
  "unify-on-fresh-copies")
b("c18-unify-no-copy-left", "C18", FCF,
  "                copy_left = state.feature_stucture.copy()", "                copy_left = state.feature_stucture",
  "unify-on-fresh-copies")
b("c18-unify-raises-valueerror", "C18", FSF,
  "            else:\n                raise FeatureStructuresNotCompatibleException()", "            else:\n                raise ValueError()",
  "unify-raises")
b("c18-copy-no-memo", "C18", FSF,
  "        if self in already_copied:\n            return already_copied[self]\n", "", "copy-preserves-sharing")
b("c18-subsumes-no-deref", "C18", FSF,
  "        current_dereferenced = self.get_dereferenced()\n        other_dereferenced = other.get_dereferenced()\n        if current_dereferenced.value != other_dereferenced.value:",
  "        current_dereferenced = self\n        other_dereferenced = other.get_dereferenced()\n        if current_dereferenced.value != other_dereferenced.value:",
  "reads-through-dereferenced-nodes")
b("c18-unify-no-recursion", "C18", FSF,
  "                current_dereferenced.content[feature].unify(other_dereferenced.content[feature])\n", "", "unify-recurses-and-creates")

# ----------------------------------------------------------------------------- C20
FAF = FA + "finite_automaton.py"
b("c20-fa-reader-wrong-key", "C20", FAF,
  "            if graph.nodes[node].get(\"is_final\", False):\n                enfa.add_final_state(node)",
  "            if graph.nodes[node].get(\"final\", False):\n                enfa.add_final_state(node)", "attributes-read-are-written:EpsilonNFA")
b("c20-pda-separator", "C20", PDAF,
  "                label=(json.dumps(in_symbol.value) + \" -> \" +", "                label=(json.dumps(in_symbol.value) + \" => \" +",
  "separators-agree:PDA")
b("c20-fst-no-dumps", "C20", FSTF,
  "                    label=(json.dumps(input_symbol) + \" -> \" +\n                           json.dumps(output_symbols)))",
  "                    label=(str(input_symbol) + \" -> \" +\n                           json.dumps(output_symbols)))", "json-fields-agree:FST")
b("c20-eps-spelling", "C20", FAF,
  "            if label_ == 'epsilon':\n                label_ = 'ɛ'", "            if label_ == 'epsilon':\n                label_ = 'ε'",
  "epsilon-spelling-accepted")
b("c20-hidden-node-renamed", "C20", PDAF,
  "        if \"INITIAL_STACK_HIDDEN\" in graph.nodes:\n            pda.set_start_stack_symbol(\n                json.loads(graph.nodes[\"INITIAL_STACK_HIDDEN\"][\"label\"]))",
  "        if \"INITIAL_STACK\" in graph.nodes:\n            pda.set_start_stack_symbol(\n                json.loads(graph.nodes[\"INITIAL_STACK\"][\"label\"]))",
  "hidden-stack-node-name-agrees")
b("c20-var-marker", "C20", "pyformlang/cfg/variable.py",
  "            return '\"VAR:' + text + '\"'", "            return '\"NT:' + text + '\"'", "markers-agree")
b("c20-ebnf-concat-alternatives", "C20", "pyformlang/rsa/recursive_automaton.py",
  "                productions[head] += \" | \" + body", "                productions[head] += \" \" + body", "alternatives-joined-by-union")
b("c20-ebnf-no-minimize", "C20", "pyformlang/rsa/recursive_automaton.py",
  "            boxes.add(Box(Regex(body).to_epsilon_nfa().minimize(),", "            boxes.add(Box(Regex(body).to_epsilon_nfa(),",
  "box=minimised-regex-automaton")
p("c20-p-reader-order", "C20", FAF,
  "            if graph.nodes[node].get(\"is_start\", False):\n                enfa.add_start_state(node)\n            if graph.nodes[node].get(\"is_final\", False):\n                enfa.add_final_state(node)\n        return enfa",
  "            attrs = graph.nodes[node]\n            if attrs.get(\"is_final\", False):\n                enfa.add_final_state(node)\n            if attrs.get(\"is_start\", False):\n                enfa.add_start_state(node)\n        return enfa")

# ----------------------------------------------------------------------------- repaired defects must be reported again
b("fx-f12", "C14", LLF, "            if current == \"$\":\n                raise NotParsableException\n", "", "attribute-on-sentinel")
b("fx-f20", "C17", "pyformlang/indexed_grammar/consumption_rule.py", "other.f_parameter == self.f_parameter", "other.f_parameter() == self.f_parameter", "property-called")
b("fx-f27", "C19", IGF, "        f_rules = self.rules.consumption_rules.get(\n            rule.production, [])", "        f_rules = self.rules.consumption_rules.setdefault(\n            rule.production, [])", "operand-write:self.rules._consumption_rules")
b("fx-f25", "C19", "pyformlang/pda/transition_function.py", "        return copy.deepcopy(self._transitions)\n", "        return self._transitions\n", "returns-alias")
b("fx-f21", "C18", FCF, "    for next_state in list(processed.generator(begin_idx)):", "    for next_state in processed.generator(begin_idx):", "insert-under-iteration")
b("fx-f16", "C16", FA + "finite_automaton.py", "            output = [] if symb_by == Epsilon() else [symb_by.value]\n", "            output = [symb_by.value]\n", "epsilon-edge-output")
b("fx-f05", "C05", RDF, "        return bool(self._components) and self._components[0] == \"(\"", "        return self._components[0] == \"(\"", "token-index-unguarded")
b("fx-f32", "C10", CFGF, "        for variable in self._variables:\n            temp = Variable(str(variable.value) + SUBS_SUFFIX + str(idx))", "        for variable in self._variables:\n            temp = Variable(variable.value + SUBS_SUFFIX + str(idx))", "renamed-variable-name-total")
b("fx-f33", "C16", FSTF, "            new_state = str(state) + str(counter)\n            while new_state", "            new_state = state + str(counter)\n            while new_state", "renamed-state-name-total")
b("fx-f28", "C20", CFGF, "                if type_component != \"TER\" and (\n                        body_component[0] in string.ascii_uppercase or\n                        type_component == \"VAR\"):\n                    body_var = Variable(body_component)", "                if (\n                        body_component[0] in string.ascii_uppercase or\n                        type_component == \"VAR\"):\n                    body_var = Variable(body_component)", "classifies:Terminal/upper/TER")
b("fx-f26", "C19", "pyformlang/pda/cfg_variable_converter.py", "        if state.index_cfg_converter is None or \\\n                self._inverse_states_d.get(state) != state.index_cfg_converter:\n            self._set_index_state(state)", "        if state.index_cfg_converter is None:\n            self._set_index_state(state)", "stale-index-read")
b("fx-f18", "C17", FSTF, "                    str((start_state, start_variable, state_p)),", "                    str((start_state, \"S\", state_p)),", "start-variable-used")

b("fx-f36", "C08", "pyformlang/cfg/variable.py",
  "            return isinstance(other, Variable) and \\\n                self._value == other.value\n",
  "            return self._value == other.value\n", "eq-symmetric:Variable/Terminal")
p("c08-p-eq-both-own-class", "C08", "pyformlang/cfg/variable.py",
  "        if isinstance(other, CFGObject):\n            return isinstance(other, Variable) and \\\n                self._value == other.value\n",
  "        if isinstance(other, Variable):\n            return self._value == other.value\n        if isinstance(other, CFGObject):\n            return False\n")
b("c18-copy-memo-not-filled", "C18", "pyformlang/fcfg/feature_structure.py",
  "        already_copied[self] = new_fs\n        return new_fs\n", "        return new_fs\n", "copy-preserves-sharing")
b("c18-copy-memo-not-passed", "C18", "pyformlang/fcfg/feature_structure.py",
  "            new_fs.content[feature] = content.copy(already_copied)\n", "            new_fs.content[feature] = content.copy()\n",
  "copy-preserves-sharing")
b("c18-copy-memo-not-consulted", "C18", "pyformlang/fcfg/feature_structure.py",
  "        if self in already_copied:\n            return already_copied[self]\n", "", "copy-preserves-sharing")
p("c18-p-copy-memo-get", "C18", "pyformlang/fcfg/feature_structure.py",
  "        if self in already_copied:\n            return already_copied[self]\n",
  "        known = already_copied.get(self)\n        if known is not None:\n            return known\n")
b("fx-f39", "C19", "pyformlang/cfg/cfg.py",
  "                                    yield list(new_word)\n", "                                    yield new_word\n",
  "yields-retained-storage")
p("c19-p-yield-copy-sliced", "C19", "pyformlang/cfg/cfg.py",
  "                                    yield list(new_word)\n", "                                    yield new_word[:]\n")
b("fx-f40", "C12", "pyformlang/cfg/cfg.py",
  "                if terminal not in g_symbols:\n                    g_symbols.add(terminal)\n                    to_process.append(terminal)\n",
  "                g_symbols.add(terminal)\n                to_process.append(terminal)\n", "each-symbol-pushed-once")
p("c12-p-terminals-difference", "C12", "pyformlang/cfg/cfg.py",
  "            for terminal in self._terminals:\n                if terminal not in g_symbols:\n                    g_symbols.add(terminal)\n                    to_process.append(terminal)\n",
  "            new_terminals = [term for term in self._terminals if term not in g_symbols]\n            g_symbols.update(new_terminals)\n            to_process.extend(new_terminals)\n")
b("fx-f37", "C15", "pyformlang/cfg/parse_tree.py",
  "            end = son_result + end\n", "            end = derivation + end\n", "derivation-siblings-agree")
p("c15-p-derivation-extend", "C15", "pyformlang/cfg/parse_tree.py",
  "            start = start + son_result\n", "            start = list(start)\n            start.extend(son_result)\n")
b("c01-alphabet-gets-epsilon", "C01", FA + "finite_automaton.py",
  "        if symb_by != Epsilon():\n            self._input_symbols.add(symb_by)\n",
  "        self._input_symbols.add(symb_by)\n", "epsilon-not-in-alphabet")
b("c01-alphabet-guard-inverted", "C01", FA + "finite_automaton.py",
  "        if symb_by != Epsilon():\n            self._input_symbols.add(symb_by)\n",
  "        if symb_by == Epsilon():\n            self._input_symbols.add(symb_by)\n", "epsilon-not-in-alphabet")
p("c01-p-alphabet-flag", "C01", FA + "finite_automaton.py",
  "        if symb_by != Epsilon():\n            self._input_symbols.add(symb_by)\n",
  "        is_eps = symb_by == Epsilon()\n        alphabet = self._input_symbols\n        if not is_eps:\n            alphabet.add(symb_by)\n")
p("c04-p-yield-flag", "C04", FA + "finite_automaton.py",
  "                if self.__try_add(yielded_words, word_to_add):\n                    yield current_word\n",
  "                fresh_word = self.__try_add(yielded_words, word_to_add)\n                if fresh_word:\n                    yield current_word\n")
b("c04-yield-unguarded", "C04", FA + "finite_automaton.py",
  "                if self.__try_add(yielded_words, word_to_add):\n                    yield current_word\n",
  "                yielded_words.add(word_to_add)\n                yield current_word\n", "yield-guarded-by-duplicate-set")
b("c01-tf-accepts-epsilon-edge", "C01", FA + "transition_function.py",
  "        if symb_by == Epsilon():\n            raise InvalidEpsilonTransition()\n        if s_from in self._transitions:",
  "        if s_from in self._transitions:", "dfa-function-rejects-epsilon")
p("c01-p-tf-epsilon-flag-after-convert", "C01", FA + "nondeterministic_finite_automaton.py",
  "        if symb_by == epsilon.Epsilon():\n            raise InvalidEpsilonTransition\n        return super().add_transition(s_from, symb_by, s_to)",
  "        is_epsilon = symb_by == epsilon.Epsilon()\n        if not is_epsilon:\n            return super().add_transition(s_from, symb_by, s_to)\n        raise InvalidEpsilonTransition")
b("c07-gate-on-wrong-branch", "C07", "pyformlang/regular_expression/python_regex.py",
  "        if not isinstance(python_regex, str):\n            python_regex = python_regex.pattern\n        else:\n            re.compile(python_regex)  # Check if it is valid\n",
  "        if not isinstance(python_regex, str):\n            python_regex = python_regex.pattern\n            re.compile(python_regex)\n",
  "re.compile-gate")
p("c07-p-gate-flag", "C07", "pyformlang/regular_expression/python_regex.py",
  "        if not isinstance(python_regex, str):\n            python_regex = python_regex.pattern\n        else:\n            re.compile(python_regex)  # Check if it is valid\n",
  "        plain = isinstance(python_regex, str)\n        if plain:\n            re.compile(python_regex)\n        else:\n            python_regex = python_regex.pattern\n")
b("c15-cyk-children-reversed-display", "C15", "pyformlang/cfg/cyk_table.py",
  "        if left_son is not None:\n            self.sons.append(left_son)\n        if right_son is not None:\n            self.sons.append(right_son)\n",
  "        self.sons.extend(son for son in (right_son, left_son) if son is not None)\n", "children-left-then-right")
p("c15-p-cyk-children-extend", "C15", "pyformlang/cfg/cyk_table.py",
  "        if left_son is not None:\n            self.sons.append(left_son)\n        if right_son is not None:\n            self.sons.append(right_son)\n",
  "        self.sons.extend(son for son in (left_son, right_son) if son is not None)\n")
b("c01-dfa-start-state-truthiness", "C01", FA + "deterministic_finite_automaton.py",
  "        start_state = to_state(start_state)\n        self._transition_function = transition_function or TransitionFunction()\n        if start_state is not None:\n            self._start_state = {start_state}",
  "        self._transition_function = transition_function or TransitionFunction()\n        if start_state:\n            start_state = to_state(start_state)\n            self._start_state = {start_state}",
  "optional-identifier-tested-against-None:start_state")
p("c01-p-dfa-start-state-truthy-after-conversion", "C01", FA + "deterministic_finite_automaton.py",
  "        if start_state is not None:\n            self._start_state = {start_state}\n        else:",
  "        if start_state:\n            self._start_state = {start_state}\n        else:")
b("c13-pda-start-state-or", "C13", "pyformlang/pda/pda.py",
  "        if start_state is not None:\n            start_state = self._pda_obj_creator.to_state(start_state)\n",
  "        start_state = start_state and self._pda_obj_creator.to_state(start_state)\n",
  "optional-identifier-tested-against-None:start_state")
b("c10-cfg-start-symbol-truthiness", "C10", "pyformlang/cfg/cfg.py",
  "        if start_symbol is not None:\n            start_symbol = to_variable(start_symbol)\n",
  "        start_symbol = to_variable(start_symbol) if start_symbol else None\n",
  "optional-identifier-tested-against-None:start_symbol")
VARIANTS = V
