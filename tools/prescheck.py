#!/venv/bin/python
"""Confirm behaviour-preserving changes and run the checks against them (the checks must stay silent).

For every directory D given (patch.diff, equiv.py): in a scratch worktree of /repo HEAD
  1. equiv.py output on the pristine tree is recorded,
  2. the patch applies; the existing test suite passes with it; equiv.py prints the same output,
  3. every claimed check (or --props) is run on the patched copy (VERIF_REPO): none may exit non-zero.
Nothing is written to /repo.  Usage: tools/prescheck.py [--props C01,C19] [--json F] D..."""
import argparse
import concurrent.futures as cf
import json
import os
import shutil
import subprocess
import tempfile

VERIF = os.path.dirname(os.path.dirname(os.path.abspath(__file__)))
REPO = "/repo"
PY = "/venv/bin/python"


def run(cmd, cwd=None, env=None, timeout=1200):
    try:
        p = subprocess.run(cmd, cwd=cwd, env=env, capture_output=True, text=True, timeout=timeout)
        return p.returncode, p.stdout + p.stderr
    except subprocess.TimeoutExpired:
        return 124, "timeout"


def claimed():
    with open(os.path.join(VERIF, "MANIFEST.json")) as fh:
        return [c["property_id"] for c in json.load(fh)["checks"]]


def one(d, props):
    d = os.path.abspath(d)
    res = {"dir": d}
    tmp = tempfile.mkdtemp(prefix="pfl-pres-")
    try:
        wt = os.path.join(tmp, "repo")
        run(["git", "-C", REPO, "worktree", "add", "--detach", "-f", wt, os.environ.get("VERIF_BASE", "HEAD")])
        env = dict(os.environ, PYTHONPATH=wt, PYTHONHASHSEED="0")
        eq = os.path.join(d, "equiv.py")
        rc0, out0 = run([PY, eq], cwd=wt, env=env, timeout=900) if os.path.exists(eq) else (0, "")
        # verdict of the unpatched base (only needed when the base is an older commit that still has defects repaired
        # since: what the base already reports is not an alarm about the change)
        base_lines = {}
        if os.environ.get("VERIF_BASE"):
            for p in props:
                cenv = dict(os.environ, VERIF_REPO=wt, VERIF_EVIDENCE_DIR=os.path.join(tmp, "ev0"))
                _rc, outb = run([os.path.join(VERIF, "check"), p], cwd=VERIF, env=cenv, timeout=1500)
                base_lines[p] = {l.strip()[:220] for l in outb.splitlines() if l.startswith(("  rule=", "ANALYSIS-ERROR"))}
        rc, out = run(["git", "-C", wt, "apply", "--whitespace=nowarn", os.path.join(d, "patch.diff")])
        res["patch_applies"] = rc == 0
        if rc != 0:
            res["error"] = out[-300:]
            return res
        rc1, out1 = run([PY, eq], cwd=wt, env=env, timeout=900) if os.path.exists(eq) else (0, "")
        res["equiv_same"] = (rc0 == rc1 == 0) and out0 == out1
        rct, outt = run([PY, "-m", "pytest", "-q", "-p", "no:cacheprovider", "--timeout=900", "-x", "pyformlang"],
                        cwd=wt, env=env, timeout=1500)
        res["tests_pass"] = rct == 0
        det = {}
        for p in props:
            cenv = dict(os.environ, VERIF_REPO=wt, VERIF_EVIDENCE_DIR=os.path.join(tmp, "ev"))
            rcc, outc = run([os.path.join(VERIF, "check"), p], cwd=VERIF, env=cenv, timeout=1500)
            if rcc != 0:
                roles = [l.strip()[:220] for l in outc.splitlines() if l.startswith(("  rule=", "ANALYSIS-ERROR"))]
                roles = [l for l in roles if l not in base_lines.get(p, ())]
                if not roles:
                    continue
                if rcc == 1 and not any(l.startswith("rule=") for l in roles):
                    rcc = 2          # the only new lines are `cannot follow`
                det[p] = {"exit": rcc, "lines": roles[:6]}
        res["alarms"] = {p: v for p, v in det.items() if v["exit"] == 1}
        res["errors"] = {p: v for p, v in det.items() if v["exit"] not in (0, 1)}
        return res
    finally:
        run(["git", "-C", REPO, "worktree", "remove", "--force", os.path.join(tmp, "repo")])
        shutil.rmtree(tmp, ignore_errors=True)


def main():
    ap = argparse.ArgumentParser()
    ap.add_argument("dirs", nargs="+")
    ap.add_argument("--props")
    ap.add_argument("--jobs", type=int, default=5)
    ap.add_argument("--json")
    a = ap.parse_args()
    props = a.props.split(",") if a.props else claimed()
    out = []
    with cf.ThreadPoolExecutor(max_workers=a.jobs) as ex:
        for r in ex.map(lambda d: one(d, props), a.dirs):
            out.append(r)
            print("%-14s applies=%s tests=%s equiv=%s alarms=%s errors=%s" % (
                "/".join(r["dir"].split("/")[-2:]), r.get("patch_applies"), r.get("tests_pass"), r.get("equiv_same"),
                sorted(r.get("alarms", {})), sorted(r.get("errors", {}))), flush=True)
            for kind in ("alarms", "errors"):
                for p, v in r.get(kind, {}).items():
                    for l in v["lines"][:3]:
                        print("      %s %s" % (p, l), flush=True)
    if a.json:
        with open(a.json, "w") as fh:
            json.dump(out, fh, indent=1)


if __name__ == "__main__":
    main()
